"""The environment model: respondents -> cube response ("tabulator", DESIGN 4.1).

A data set is an assignment of a weighted mass m[p] >= 0 and a head count u[p] >= 0 to every joint
answer pattern p (one answer per variable).  The tabulator emits the cube response the Crunch backend
would produce for those respondents, in the wire layout of the repository's fixtures.
"""
import itertools
from fractions import Fraction

import numpy as np

from .inject import SymList

SEL, OTH, MIS = 0, 1, 2   # per-item answers of a multiple-response variable (wire order [1, 0, -1])


class Cat:
    """categorical (or categorical-date) variable"""
    kind = "cat"

    def __init__(self, alias, cats, dates=None, insertions=None, numeric_values=None):
        # cats: list of (id, missing:bool)
        self.alias = alias
        self.cats = [(int(i), bool(m)) for i, m in cats]
        self.dates = dates
        self.insertions = insertions
        self.numeric_values = numeric_values or {}
        self.answers = list(range(len(self.cats)))

    @property
    def valid(self):
        return [k for k, (i, m) in enumerate(self.cats) if not m]

    @property
    def shape(self):
        return (len(self.cats),)

    def dims(self):
        cats = []
        for k, (cid, missing) in enumerate(self.cats):
            c = {"id": cid, "missing": missing, "name": "%s%d" % (self.alias, cid) if cid >= 0 else "No Data",
                 "numeric_value": self.numeric_values.get(cid)}
            if self.dates is not None and not missing:
                c["date"] = self.dates[k]
            cats.append(c)
        refs = {"alias": self.alias, "name": self.alias.upper(), "description": "desc " + self.alias}
        if self.insertions is not None:
            refs["view"] = {"transform": {"insertions": self.insertions}}
        return [{"derived": False, "references": refs,
                 "type": {"categories": cats, "class": "categorical", "ordinal": False}}]

    def cell_of(self, answer):
        return (answer,)

    # elements of the analysis dimension: list of (label, predicate(answer) -> member?, valid(answer) -> bool)
    def elements(self):
        out = []
        for k in self.valid:
            out.append((self.cats[k][0], (lambda a, k=k: a == k)))
        return out

    def is_valid_answer(self, a, element_idx=None):
        return not self.cats[a][1]


class MR:
    """multiple-response variable: each item is selected / not selected / missing per respondent"""
    kind = "mr"

    def __init__(self, alias, nitems, insertions=None, item_aliases=None, subvar_ids=None):
        self.alias = alias
        self.n = nitems
        self.insertions = insertions
        self.item_aliases = item_aliases or ["%s_%d" % (alias, k + 1) for k in range(nitems)]
        self.subvar_ids = subvar_ids or ["%04d" % (k + 1) for k in range(nitems)]
        self.answers = list(itertools.product((SEL, OTH, MIS), repeat=nitems))

    @property
    def shape(self):
        return (self.n, 3)

    def _subrefs(self):
        return [{"alias": a, "name": a.upper(), "description": a} for a in self.item_aliases]

    def dims(self):
        refs = {"alias": self.alias, "name": self.alias.upper(), "description": None,
                "is_dichotomous": True, "subreferences": self._subrefs()}
        refs0 = dict(refs)
        if self.insertions is not None:
            refs0["view"] = {"transform": {"insertions": self.insertions}}
        elements = [
            {"id": k + 1, "missing": False,
             "value": {"derived": False, "id": self.subvar_ids[k], "references": self._subrefs()[k]}}
            for k in range(self.n)
        ]
        d0 = {"derived": True, "references": refs0,
              "type": {"class": "enum", "elements": elements, "subtype": {"class": "variable"}}}
        d1 = {"derived": True, "references": dict(refs),
              "type": {"categories": [
                  {"id": 1, "missing": False, "name": "Selected", "numeric_value": 1, "selected": True},
                  {"id": 0, "missing": False, "name": "Not Selected", "numeric_value": 0},
                  {"id": -1, "missing": True, "name": "No Data", "numeric_value": None}],
                  "class": "categorical", "ordinal": False, "subvariables": list(self.subvar_ids)}}
        return [d0, d1]

    def cells_of(self, answer):
        """all (item, plane) wire cells a respondent with this answer falls into"""
        return [(k, answer[k]) for k in range(self.n)]


class CA:
    """categorical array: every item is answered with one category"""
    kind = "ca"

    def __init__(self, alias, nitems, cats, insertions=None, numeric_values=None, selected_id=None):
        self.alias = alias
        self.n = nitems
        self.selected_id = selected_id
        self.cats = [(int(i), bool(m)) for i, m in cats]
        self.insertions = insertions
        self.numeric_values = numeric_values or {}
        self.item_aliases = ["%s_%d" % (alias, k + 1) for k in range(nitems)]
        self.subvar_ids = ["%04d" % (k + 1) for k in range(nitems)]
        self.answers = list(itertools.product(range(len(self.cats)), repeat=nitems))

    @property
    def shape(self):
        return (self.n, len(self.cats))

    @property
    def valid(self):
        return [k for k, (i, m) in enumerate(self.cats) if not m]

    def _subrefs(self):
        return [{"alias": a, "name": a.upper(), "description": None} for a in self.item_aliases]

    def dims(self):
        refs = {"alias": self.alias, "name": self.alias.upper(), "description": None,
                "is_dichotomous": False, "subreferences": self._subrefs()}
        elements = [
            {"id": k + 1, "missing": False,
             "value": {"derived": False, "id": self.subvar_ids[k], "references": self._subrefs()[k]}}
            for k in range(self.n)
        ]
        d0 = {"derived": True, "references": dict(refs),
              "type": {"class": "enum", "elements": elements, "subtype": {"class": "variable"}}}
        refs1 = dict(refs)
        if self.insertions is not None:
            refs1["view"] = {"transform": {"insertions": self.insertions}}
        cats = [{"id": cid, "missing": m, "name": "%s%d" % (self.alias, cid) if cid >= 0 else "No Data",
                 "numeric_value": self.numeric_values.get(cid)} for cid, m in self.cats]
        for c in cats:
            if self.selected_id is not None and c["id"] == self.selected_id:
                c["selected"] = True
        d1 = {"derived": False, "references": refs1,
              "type": {"categories": cats, "class": "categorical", "ordinal": False,
                       "subvariables": list(self.subvar_ids)}}
        return [d0, d1]

    def cells_of(self, answer):
        return [(k, answer[k]) for k in range(self.n)]


class Population:
    """joint answer patterns over the variables with symbolic masses"""

    def __init__(self, eng, variables, prefix="", unweighted_concrete=None, link=False, cell_mode=False):
        self.eng = eng
        self.vars = list(variables)
        self.patterns = list(itertools.product(*[v.answers for v in self.vars]))
        self.prefix = prefix
        self.m = []
        self.u = []
        for pi, p in enumerate(self.patterns):
            self.m.append(eng.real("%sm%d" % (prefix, pi), lo=0))
            if unweighted_concrete is not None:
                val = unweighted_concrete[pi % len(unweighted_concrete)] if isinstance(unweighted_concrete, (list, tuple)) else unweighted_concrete
                self.u.append(np.float64(val) if not eng.symbolic else Fraction(val))
            else:
                self.u.append(eng.real("%su%d" % (prefix, pi), lo=0))

    def mass(self, pred, weight="m"):
        """sum of the masses of the patterns satisfying pred(pattern)"""
        src = self.m if weight == "m" else self.u
        tot = None
        for p, x in zip(self.patterns, src):
            if pred(p):
                tot = x if tot is None else tot + x
        if tot is None:
            tot = np.float64(0.0) if not self.eng.symbolic else Fraction(0)
        return tot

    def tensor(self, order, weight="m"):
        """wire tensor (numpy object array) over the variables in `order` (indices into self.vars)"""
        shape = ()
        for vi in order:
            shape += self.vars[vi].shape
        T = np.empty(shape, dtype=object)
        zero = np.float64(0.0) if not self.eng.symbolic else Fraction(0)
        for idx in np.ndindex(shape):
            T[idx] = zero
        src = self.m if weight == "m" else self.u
        for p, x in zip(self.patterns, src):
            # every respondent falls in one cell per (item of array variable) combination
            cellsets = []
            for vi in order:
                v = self.vars[vi]
                if v.kind == "cat":
                    cellsets.append([(p[vi],)])
                else:
                    cellsets.append(v.cells_of(p[vi]))
            for combo in itertools.product(*cellsets):
                idx = ()
                for c in combo:
                    idx += tuple(c)
                T[idx] = T[idx] + x
        return T


def flat(T):
    return SymList(T.reshape(-1).tolist())


def response(pop, order, weighted=True, extra_measures=None, n=None, result_extra=None):
    """cube response dict for the variables `order` of population `pop`"""
    dims = []
    for vi in order:
        dims.extend(pop.vars[vi].dims())
    Tu = pop.tensor(order, "u")
    res = {
        "dimensions": dims,
        "counts": flat(Tu),
        "element": "crunch:cube",
        "measures": {},
        "missing": 0,
        "n": 0,
    }
    if weighted:
        Tm = pop.tensor(order, "m")
        res["measures"]["count"] = {
            "data": flat(Tm),
            "metadata": {"derived": True, "references": {},
                         "type": {"class": "numeric", "integer": False, "missing_reasons": {"No Data": -1},
                                  "missing_rules": {}}},
            "n_missing": 0,
        }
    else:
        res["measures"]["count"] = {
            "data": flat(Tu),
            "metadata": {"derived": True, "references": {},
                         "type": {"class": "numeric", "integer": True, "missing_reasons": {"No Data": -1},
                                  "missing_rules": {}}},
            "n_missing": 0,
        }
    if extra_measures:
        res["measures"].update(extra_measures)
    if result_extra:
        res.update(result_extra)
    return {"query": {}, "result": res}
