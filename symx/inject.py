"""Bind the symbolic numpy layer and the scipy stubs into the cr.cube modules (no repo change).

`activate()` rebinds the module globals `np`, `norm`, `t` of every cr.cube module; `deactivate()`
restores the originals, so that concrete replays run the unmodified library on plain numpy.
"""
from fractions import Fraction
import importlib
import os
import pkgutil
import sys
import types

import numpy as np
import z3

from . import array as A
from .array import SymArray, as_sym, has_sym
from .scalar import Q, SymBool, Unsupported, Lin, isb, band, bor, bnot, bz, eqv

_PASSTHROUGH_TYPES = (type,)


class NPProxy:
    """stands in for the module global `np` of the library modules"""

    def __init__(self):
        self._cache = {}

    def __getattr__(self, name):
        c = self._cache.get(name)
        if c is not None:
            return c
        real = getattr(np, name)
        if name in _OVERRIDES:
            w = _OVERRIDES[name]
        elif isinstance(real, type) or not callable(real) or isinstance(real, np.ufunc):
            w = real if not isinstance(real, np.ufunc) else _wrap_fn(real)
        elif isinstance(real, types.ModuleType):
            w = _ModProxy(real)
        else:
            w = _wrap_fn(real)
        self._cache[name] = w
        return w


class _ModProxy:
    def __init__(self, mod):
        self._mod = mod

    def __getattr__(self, name):
        real = getattr(self._mod, name)
        if callable(real) and not isinstance(real, type):
            return _wrap_fn(real)
        return real


def _upgrade(x):
    """plain object ndarray / list that carries symbolic scalars -> SymArray"""
    if isinstance(x, SymArray):
        return x
    if isinstance(x, np.ndarray):
        if x.dtype == object and has_sym(x):
            return x.view(SymArray)
        return x
    if isinstance(x, (list, tuple)) and has_sym(x):
        if _contains_array(x):
            return type(x)(_upgrade(e) for e in x)
        try:
            return as_sym(A._obj_array(x))
        except Unsupported:
            return x
    return x


def _contains_array(x, depth=0):
    if isinstance(x, np.ndarray):
        return True
    if isinstance(x, (list, tuple)) and depth < 4:
        return any(_contains_array(e, depth + 1) for e in x)
    return False


def _wrap_fn(real):
    def w(*args, **kwargs):
        args = tuple(_upgrade(a) for a in args)
        kwargs = {k: _upgrade(v) for k, v in kwargs.items()}
        if (isinstance(real, np.ufunc) or real in A.HANDLED) and not any(isinstance(a, SymArray) for a in args):
            if any(isinstance(a, (Q, SymBool)) for a in args):
                if isinstance(real, np.ufunc):
                    return A.sym_ufunc(real, "__call__", args, kwargs)
                return A.HANDLED[real](*args, **kwargs)
        r = real(*args, **kwargs)
        return _upgrade(r) if isinstance(r, np.ndarray) else r
    w.__name__ = getattr(real, "__name__", "np_fn")
    w.__wrapped__ = real
    if isinstance(real, np.ufunc):
        w.reduce = lambda *a, **k: _upgrade_result(real.reduce(*[_upgrade(x) for x in a], **k))
        w.accumulate = lambda *a, **k: _upgrade_result(real.accumulate(*[_upgrade(x) for x in a], **k))
        w.outer = real.outer
    return w


def _upgrade_result(r):
    return _upgrade(r) if isinstance(r, np.ndarray) else r


def _floatish(obj, dtype):
    """should a concrete payload become an exact (rational) symbolic array?  Only float data: index / label arrays stay numpy's"""
    if not ACTIVE["on"]:
        return False
    if dtype is not None:
        try:
            return np.dtype(dtype).kind == "f"
        except TypeError:
            return False
    if isinstance(obj, np.ndarray):
        return obj.dtype.kind == "f"
    if isinstance(obj, (float, np.floating)):
        return True
    if isinstance(obj, (list, tuple)):
        flat = obj
        depth = 0
        while flat and isinstance(flat[0], (list, tuple)) and depth < 4:
            flat = [e for sub in flat for e in (sub if isinstance(sub, (list, tuple)) else [sub])]
            depth += 1
        if not flat:
            return False
        ok = all(isinstance(e, (int, float, np.floating, np.integer)) and not isinstance(e, bool) for e in flat)
        return ok and any(isinstance(e, (float, np.floating)) for e in flat)
    return False


def _array(obj, dtype=None, *a, **k):
    if isinstance(obj, SymArray):
        if dtype is not None and np.dtype(dtype).kind in "iub":
            return obj.astype(dtype)
        return obj.copy()
    if has_sym(obj):
        if dtype is not None and np.dtype(dtype).kind in "iu":
            return as_sym(A._obj_array(obj)).astype(dtype)
        return as_sym(A._obj_array(obj) if not isinstance(obj, np.ndarray) else obj)
    if _floatish(obj, dtype):
        # concrete float data is carried as exact rationals so that no rounding enters the terms (floats are reals)
        raw = np.array(obj, dtype, *a, **k) if dtype is not None else np.array(obj, *a, **k)
        if raw.dtype.kind == "f":
            return _exact(raw)
        return raw
    return np.array(obj, dtype, *a, **k) if dtype is not None else np.array(obj, *a, **k)


_LIFT = np.frompyfunc(Q.lift, 1, 1)


def _exact(raw):
    out = np.empty(raw.shape, dtype=object)
    if raw.size:
        out[...] = _LIFT(raw.astype(object))
    return out.view(SymArray)


def _asarray(obj, dtype=None, *a, **k):
    if isinstance(obj, SymArray):
        return obj
    if has_sym(obj):
        return _array(obj, dtype)
    return np.asarray(obj, dtype, *a, **k) if dtype is not None else np.asarray(obj, *a, **k)


def _fromiter(it, dtype=None, count=-1, **k):
    items = list(it)
    if has_sym(items):
        return _array(items, dtype)
    return np.fromiter(items, dtype=dtype, count=count, **k)


def _const_array(shape, value, dtype):
    """float constant arrays become symbolic so that later item assignment of symbolic values works"""
    if dtype is not None and np.dtype(dtype).kind not in "f":
        return None
    out = np.empty(shape, dtype=object)
    out[...] = Q.lift(value)
    return out.view(SymArray)


def _full(shape, fill_value, dtype=None, **k):
    if isinstance(fill_value, (Q, SymBool)):
        out = np.empty(shape, dtype=object)
        out[...] = fill_value
        return out.view(SymArray)
    if ACTIVE["on"] and (dtype is None or np.dtype(dtype).kind == "f") and isinstance(fill_value, (int, float, np.floating, np.integer)) and not isinstance(fill_value, bool):
        return _const_array(shape, fill_value, None)
    return np.full(shape, fill_value, dtype=dtype, **k)


def _zeros(shape, dtype=float, **k):
    if ACTIVE["on"] and np.dtype(dtype).kind == "f":
        return _const_array(shape, 0, None)
    return np.zeros(shape, dtype=dtype, **k)


def _ones(shape, dtype=float, **k):
    # np.ones(window) in smoothing: window may be symbolic-int (handled by SymInt.__index__)
    return np.ones(shape, dtype=dtype, **k)


def _empty(shape, dtype=float, **k):
    if ACTIVE["on"] and np.dtype(dtype).kind == "f":
        return _const_array(shape, 0, None)
    return np.empty(shape, dtype=dtype, **k)


class SymRepeat:
    """np.repeat(values, counts) with symbolic integer counts: a multiset whose length depends on the data.
    Only what the library does with it is supported: `.size` and `np.median`."""
    ndim = 1

    def __init__(self, values, counts):
        self.values = [Q.lift(v) for v in np.asarray(values, dtype=object).reshape(-1)]
        self.counts = [Q.lift(c) for c in np.asarray(counts, dtype=object).reshape(-1)]
        if len(self.values) != len(self.counts):
            raise Unsupported("np.repeat: values and counts of different length")

    @property
    def size(self):
        tot = Q.lift(0)
        for c in self.counts:
            tot = tot + c
        return tot

    def median(self):
        """median of the multiset: the middle element of the sorted expansion, or the mean of the two middle ones"""
        import z3 as _z3
        from . import scalar as _S
        pairs = []
        for v, c in zip(self.values, self.counts):        # insertion sort by value (forks when values are symbolic)
            k = 0
            while k < len(pairs) and bool(pairs[k][0] <= v):
                k += 1
            pairs.insert(k, (v, c))
        n = self.size
        if bool(n == 0):
            return Q.NAN
        ni = _z3.ToInt(_S.zr(n.n)) if not n.is_const else None
        even = (int(n.const_value()) % 2 == 0) if ni is None else _S.HOOKS.branch(ni % 2 == 0)
        # 1-based positions of the middle elements
        lo_pos = n / 2 if even else (n + 1) / 2
        hi_pos = n / 2 + 1 if even else lo_pos

        def at(pos):
            cum = Q.lift(0)
            for v, c in pairs[:-1]:
                cum = cum + c
                if bool(cum >= pos):
                    return v
            return pairs[-1][0]
        lo = at(lo_pos)
        hi = lo if not even else at(hi_pos)
        return (lo + hi) / 2


def _repeat(a, repeats, axis=None):
    a = _upgrade(a)
    if isinstance(repeats, (Q, SymArray)):
        if axis is None and isinstance(repeats, SymArray) and repeats.ndim == 1:
            return SymRepeat(a, repeats)
        raise Unsupported("np.repeat with data-dependent repeat counts (array length depends on data)")
    if ACTIVE["on"] and not isinstance(a, SymArray) and isinstance(a, (int, float)) and not isinstance(a, bool):
        # np.repeat(1, shape) / np.repeat(0, shape): keep numpy's dtype semantics (int array!)
        return np.repeat(a, repeats, axis)
    return _upgrade_result(np.repeat(a, repeats, axis))


def _median(a, *args, **kw):
    if isinstance(a, SymRepeat):
        return a.median()
    a = _upgrade(a)
    if isinstance(a, SymArray):
        if a.ndim == 1 and not args and not kw:
            return SymRepeat(a, np.ones(a.shape[0], dtype=int)).median() if a.shape[0] else Q.NAN
        raise Unsupported("np.median on symbolic data")
    return np.median(a, *args, **kw)


ACTIVE = {"on": False}

_OVERRIDES = {
    "array": _array,
    "asarray": _asarray,
    "fromiter": _fromiter,
    "full": _full,
    "zeros": _zeros,
    "empty": _empty,
    "repeat": _repeat,
    "median": _median,
}


# ---------------------------------------------------------------------------------
# scipy.stats stubs: Ackermannised uninterpreted cdfs
# ---------------------------------------------------------------------------------
class UFApps:
    """applications of uninterpreted real functions, recorded per engine run"""

    def __init__(self):
        self.apps = []   # (fname, args tuple of Q, result var)
        self.axioms = []
        self.counter = 0

    def reset(self):
        self.apps = []
        self.axioms = []
        self.counter = 0


UF = UFApps()
ENGINE = {"cur": None}


def _uf_apply(fname, args):
    eng = ENGINE["cur"]
    args = tuple(Q.lift(a) for a in args)
    # syntactic reuse
    for fn, a2, res in UF.apps:
        if fn == fname and len(a2) == len(args) and all(_q_identical(x, y) for x, y in zip(a2, args)):
            return res
    UF.counter += 1
    v = z3.Real("uf!%s!%d" % (fname, UF.counter))
    eng.vars[str(v)] = v
    eng.kinds[str(v)] = "real"
    res = Q(v)
    UF.apps.append((fname, args, res))
    try:
        zero = Q.lift(0)
        half = z3.RealVal("1/2")
        a = args[0]
        from .scalar import isc as _isc
        if a.rn is not None and _isc(a.n) and a.n >= 0 and _isc(a.d) and a.d > 0:
            # |x| in radical form is non-negative by construction: keep the feasibility solver linear
            axs = (z3.And(v >= 0, v <= 1), bz(bor(a.nan, v >= half)))
        else:
            ge0 = bor(zero._lt(a), a._eq(zero))
            le0 = bor(a._lt(zero), a._eq(zero))
            axs = (z3.And(v >= 0, v <= 1), bz(bor(bnot(ge0), v >= half)), bz(bor(bnot(le0), v <= half)))
        for ax in axs:
            eng.assumptions_uf.append(ax)
            if eng._solver is not None:
                eng._solver.add(ax)
    except Unsupported:
        pass
    return res


def uf_vars_in(term, _cache={}):
    """names of uninterpreted-application result variables occurring in a z3 term"""
    out = set()
    seen = set()
    stack = [term]
    while stack:
        t = stack.pop()
        k = t.get_id()
        if k in seen:
            continue
        seen.add(k)
        if z3.is_const(t) and t.decl().kind() == z3.Z3_OP_UNINTERPRETED:
            nm = t.decl().name()
            if nm.startswith("uf!"):
                out.add(nm)
        else:
            stack.extend(t.children())
    return out


def uf_axioms(terms):
    """range and (pairwise, on demand) congruence axioms for the applications occurring in `terms`"""
    names = set()
    for t in terms:
        if isinstance(t, z3.ExprRef):
            names |= uf_vars_in(t)
    # arguments of those applications may mention further applications
    changed = True
    apps = []
    while changed:
        changed = False
        apps = [ap for ap in UF.apps if str(ap[2].n) in names]
        for fn, args, res in apps:
            for a in args:
                for part in (a.n, a.d, a.rn, a.rd, a.nan, a.inf):
                    if isinstance(part, Lin):
                        part = part.z()
                    if isinstance(part, z3.ExprRef):
                        new = uf_vars_in(part) - names
                        if new:
                            names |= new
                            changed = True
    ax = []
    zero = Q.lift(0)
    half = z3.RealVal("1/2")
    for fn, args, res in apps:
        ax.append(z3.And(res.n >= 0, res.n <= 1))
        # symmetric cdf (normal, Student t): F(x) >= 1/2 for x >= 0, <= 1/2 for x <= 0
        a = args[0]
        ge0 = bor(zero._lt(a), a._eq(zero))
        le0 = bor(a._lt(zero), a._eq(zero))
        ax.append(bz(bor(bnot(ge0), res.n >= half)))
        ax.append(bz(bor(bnot(le0), res.n <= half)))
    for i in range(len(apps)):
        for j in range(i):
            if apps[i][0] == apps[j][0]:
                same = band(*[eqv(x, y) for x, y in zip(apps[i][1], apps[j][1])])
                ax.append(bz(bor(bnot(same), apps[i][2].n == apps[j][2].n)))
    return ax


def _q_identical(x, y):
    from .scalar import peq
    def pe(a, b):
        if a is None or b is None:
            return a is None and b is None
        return peq(a, b)
    def be(a, b):
        if isb(a) or isb(b):
            return isb(a) and isb(b) and bool(a) == bool(b)
        return a.eq(b)
    return pe(x.n, y.n) and pe(x.d, y.d) and pe(x.rn, y.rn) and pe(x.rd, y.rd) and be(x.nan, y.nan) and be(x.inf, y.inf)


def _cdf_elem(fname, x, *params):
    x = Q.lift(x)
    if x.is_const and all(Q.lift(p).is_const for p in params):
        import scipy.stats as st
        xv = x.const_value()
        if fname == "norm":
            return Q.lift(float(st.norm.cdf(xv)))
        return Q.lift(float(st.t.cdf(xv, *[Q.lift(p).const_value() for p in params])))
    r = _uf_apply(fname, (x,) + tuple(params))
    nan = x.nan
    for p in params:
        nan = bor(nan, Q.lift(p).nan)
    if fname == "tcdf" and params:
        # scipy: the cdf is NaN for non-positive degrees of freedom
        df = Q.lift(params[0])
        zero = Q.lift(0)
        nan = bor(nan, df._lt(zero), df._eq(zero))
    return Q(r.n, 1, None, None, nan, False, 1)


class _NormStub:
    @staticmethod
    def cdf(x, *a, **k):
        if not has_sym(x) and not isinstance(x, (Q,)):
            import scipy.stats as st
            return st.norm.cdf(x, *a, **k)
        if isinstance(x, Q):
            return _cdf_elem("norm", x)
        f = np.frompyfunc(lambda e: _cdf_elem("norm", e), 1, 1)
        return A._wrap(f(A._base(x)))


class _TStub:
    @staticmethod
    def cdf(x, df=None, *a, **k):
        if not has_sym(x) and not isinstance(x, Q) and not has_sym(df) and not isinstance(df, Q):
            import scipy.stats as st
            return st.t.cdf(x, df, *a, **k)
        f = np.frompyfunc(lambda e, d: _cdf_elem("tcdf", e, d), 2, 1)
        r = f(A._base(x), A._base(df))
        return A._wrap(r)


# ---------------------------------------------------------------------------------
class SymList(list):
    """list whose equality with another list is one symbolic conjunction (one fork, not one per element)"""

    def __eq__(self, other):
        if not isinstance(other, list) or len(other) != len(self):
            return list.__eq__(self, other)
        acc = True
        for a, b in zip(self, other):
            if isinstance(a, (Q, SymBool)) or isinstance(b, (Q, SymBool)):
                e = (Q.lift(a) == b)
                if isb(e):
                    if not e:
                        return False
                    continue
                acc = e if isb(acc) else (acc & e)
            elif isinstance(a, (dict, list)) or isinstance(b, (dict, list)):
                if a != b:
                    return False
            else:
                if a != b and not (a != a and b != b):
                    return False
        if isb(acc):
            return acc
        return bool(acc)

    def __ne__(self, other):
        return not self.__eq__(other)

    __hash__ = None


# ---------------------------------------------------------------------------------
_ABSENT = object()
_builtin_int = int


def sym_int(x=0, *a):
    from .scalar import SymInt
    if isinstance(x, SymInt):
        return x
    return _builtin_int(x, *a)


_builtin_str = str


class _SymStrMeta(type):
    def __instancecheck__(cls, obj):
        return isinstance(obj, _builtin_str)


class sym_str(metaclass=_SymStrMeta):
    """stands in for the builtin `str` in the library modules: str(symbolic id) is the spelling of its identifier class"""

    def __new__(cls, x="", *a):
        from .scalar import SymInt
        if isinstance(x, SymInt) and x.domain is not None:
            c = x.classify()
            return _builtin_str(c) if c is not None else "other-id!" + x.name
        return _builtin_str(x, *a)


_MODULES = None
_SAVED = {}
PROXY = NPProxy()


def cube_modules():
    global _MODULES
    if _MODULES is None:
        import cr.cube
        mods = []
        for m in pkgutil.walk_packages(cr.cube.__path__, "cr.cube."):
            mods.append(importlib.import_module(m.name))
        _MODULES = mods
    return _MODULES


def activate(engine):
    ENGINE["cur"] = engine
    if ACTIVE["on"]:
        return
    for m in cube_modules():
        saved = {}
        if hasattr(m, "np"):
            saved["np"] = m.np
            m.np = PROXY
        if hasattr(m, "norm"):
            saved["norm"] = m.norm
            m.norm = _NormStub
        if m.__name__ in ("cr.cube.dimension", "cr.cube.collator"):
            # the builtin int() cannot be overloaded for symbolic ids: rebind the module global
            saved["int"] = m.__dict__.get("int", _ABSENT)
            m.int = sym_int
            saved["str"] = m.__dict__.get("str", _ABSENT)
            m.str = sym_str
        if hasattr(m, "t") and m.__name__ in ("cr.cube.matrix.measure", "cr.cube.measures.pairwise_significance"):
            saved["t"] = m.t
            m.t = _TStub
        _SAVED[m.__name__] = saved
    ACTIVE["on"] = True


def deactivate():
    if not ACTIVE["on"]:
        return
    for m in cube_modules():
        for k, v in _SAVED.get(m.__name__, {}).items():
            if v is _ABSENT:
                if k in m.__dict__:
                    delattr(m, k)
            else:
                setattr(m, k, v)
    _SAVED.clear()
    ACTIVE["on"] = False
    ENGINE["cur"] = None
