"""Symbolic scalars: extended reals in fraction-radical normal form over z3 terms.

value(Q) = (n / d) * sqrt(rn / rd)      n, d, rn, rd : Fraction | z3 Real term (polynomial)
flags    nan, inf : bool | z3 BoolRef   sg: sign carrier of an infinity (Fraction | z3 Real)

The polynomial parts never contain '/' ; IEEE special values live in the flags.
Rounding is not modelled: floats are reals (DESIGN section 8).
"""
from fractions import Fraction
import math
import numbers

import numpy as np
import z3

from . import fz


class Unsupported(Exception):
    """The engine met an operation it does not model. Never a verdict."""


# --------------------------------------------------------------------------
# polynomial parts: Fraction constants folded in Python, everything else z3
# --------------------------------------------------------------------------

def isc(x):
    return isinstance(x, (int, Fraction))


_RV = {}


class Lin:
    """canonical linear form  c + sum coeff_i * var_i  (vars sorted by name): sums of the same inputs
    built in different orders become the *same* z3 AST, so most VCs of linear measures are syntactic."""
    __slots__ = ("t", "c", "_z")
    VARS = {}   # name -> z3 Real term

    def __init__(self, t, c):
        self.t = t      # tuple of (name, Fraction) sorted by name, no zero coefficients
        self.c = c      # Fraction
        self._z = None

    @staticmethod
    def var(name, zterm):
        Lin.VARS[name] = zterm
        return Lin(((name, Fraction(1)),), Fraction(0))

    @staticmethod
    def make(d, c):
        t = tuple(sorted((k, v) for k, v in d.items() if v != 0))
        if not t:
            return Fraction(c)
        return Lin(t, Fraction(c))

    def z(self):
        if self._z is None:
            acc = None
            for name, co in self.t:
                v = Lin.VARS[name]
                term = v if co == 1 else (fz.neg(v) if co == -1 else fz.mul(_rv(co), v))
                acc = term if acc is None else fz.add(acc, term)
            if self.c != 0:
                acc = fz.add(acc, _rv(self.c))
            self._z = acc
        return self._z

    def __repr__(self):
        return "Lin(%s)" % self.z()


def _rv(k):
    k = Fraction(k)
    r = _RV.get(k)
    if r is None:
        r = _RV[k] = z3.RealVal(str(k))
    return r


def zr(x):
    """z3 Real term for a polynomial part."""
    if isc(x):
        return _rv(x)
    if isinstance(x, Lin):
        return x.z()
    return x


def _lin_add(a, b, sb=1):
    d = dict(a.t)
    for k, v in b.t:
        d[k] = d.get(k, 0) + sb * v
    return Lin.make(d, a.c + sb * b.c)


def _lin_scale(a, k):
    k = Fraction(k)
    if k == 0:
        return Fraction(0)
    return Lin(tuple((n, v * k) for n, v in a.t), a.c * k)


def padd(a, b):
    if isc(a) and isc(b):
        return Fraction(a) + Fraction(b)
    if isc(a) and a == 0:
        return b
    if isc(b) and b == 0:
        return a
    la, lb = isinstance(a, Lin), isinstance(b, Lin)
    if la and lb:
        return _lin_add(a, b)
    if la and isc(b):
        return Lin(a.t, a.c + Fraction(b))
    if lb and isc(a):
        return Lin(b.t, b.c + Fraction(a))
    return fz.add(zr(a), zr(b))


def pneg(a):
    if isc(a):
        return -Fraction(a)
    if isinstance(a, Lin):
        return _lin_scale(a, -1)
    return fz.neg(a)


def psub(a, b):
    if isc(b):
        return padd(a, -Fraction(b))
    if isinstance(b, Lin) and (isinstance(a, Lin) or isc(a)):
        return padd(a, _lin_scale(b, -1))
    if isc(a) and a == 0:
        return fz.neg(zr(b))
    return fz.sub(zr(a), zr(b))


def pmul(a, b):
    if isc(a) and isc(b):
        return Fraction(a) * Fraction(b)
    if isc(a):
        a, b = b, a
    if isc(b):
        if b == 0:
            return Fraction(0)
        if b == 1:
            return a
        if isinstance(a, Lin):
            return _lin_scale(a, b)
        if b == -1:
            return fz.neg(a)
        return fz.mul(zr(b), a)
    za, zb = zr(a), zr(b)
    # commutative canonical order (ids are stable while the terms are alive)
    if za.get_id() > zb.get_id():
        za, zb = zb, za
    return fz.mul(za, zb)


def peq(a, b):
    """Structural identity of two polynomial parts."""
    if isc(a) and isc(b):
        return Fraction(a) == Fraction(b)
    if isc(a) or isc(b):
        return False
    if isinstance(a, Lin) and isinstance(b, Lin):
        return a.t == b.t and a.c == b.c
    if isinstance(a, Lin) or isinstance(b, Lin):
        return False
    return a.eq(b)


# --------------------------------------------------------------------------
# boolean flags: Python bool folded, else z3 BoolRef
# --------------------------------------------------------------------------

def isb(x):
    return isinstance(x, (bool, np.bool_))


def bnot(a):
    if isb(a):
        return not a
    return fz.not_(a)


def band(*xs):
    out = []
    for x in xs:
        if isb(x):
            if not x:
                return False
            continue
        out.append(x)
    if not out:
        return True
    if len(out) == 1:
        return out[0]
    return fz.and_(out)


def bor(*xs):
    out = []
    for x in xs:
        if isb(x):
            if x:
                return True
            continue
        out.append(x)
    if not out:
        return False
    if len(out) == 1:
        return out[0]
    return fz.or_(out)


def bimp(a, b):
    return bor(bnot(a), b)


def biff(a, b):
    if isb(a):
        return b if a else bnot(b)
    if isb(b):
        return a if b else bnot(a)
    return fz.iff(a, b)


def bz(x):
    """z3 BoolRef of a flag."""
    if isb(x):
        return z3.BoolVal(bool(x))
    return x


def bite(c, a, b):
    """if-then-else over flags."""
    if isb(c):
        return a if c else b
    if isb(a) and isb(b):
        if a == b:
            return a
        return c if a else fz.not_(c)
    return fz.ite_bool(c, bz(a), bz(b))


def pite(c, a, b):
    """if-then-else over polynomial parts (leaves normal form -> solver stage)."""
    if isb(c):
        return a if c else b
    if peq(a, b):
        return a
    return fz.ite_arith(c, zr(a), zr(b))


def p_is0(x):
    if isc(x):
        return x == 0
    return fz.eq(zr(x), fz.ZERO)


def _dag_size(t, limit):
    seen = set()
    stack = [t]
    while stack:
        x = stack.pop()
        k = x.get_id()
        if k in seen:
            continue
        seen.add(k)
        if len(seen) > limit or (z3.is_app(x) and x.decl().kind() == z3.Z3_OP_ITE):
            return limit + 1        # too big, or contains if-then-else: sum-of-monomials expansion can explode
        stack.extend(x.children())
    return len(seen)


def p_is0_poly(x):
    """like p_is0, but first lets z3 expand small polynomials to sum-of-monomials: a polynomial identity
    (impl and oracle algebraically equal) is then decided without the non-linear solver"""
    if isc(x):
        return x == 0
    zx = zr(x)
    if _dag_size(zx, 600) <= 600:
        e = z3.simplify(zx, som=True)
        if z3.is_rational_value(e) or z3.is_int_value(e):
            return e.numerator_as_long() == 0 if z3.is_rational_value(e) else e.as_long() == 0
    return fz.eq(zx, fz.ZERO)


def p_lt0(x):
    if isc(x):
        return x < 0
    return fz.lt(zr(x), fz.ZERO)


def p_gt0(x):
    if isc(x):
        return x > 0
    return fz.gt(zr(x), fz.ZERO)


def p_ge0(x):
    if isc(x):
        return x >= 0
    return fz.ge(zr(x), fz.ZERO)


def _isqrt_frac(fr):
    """Exact rational square root of a Fraction or None."""
    if fr < 0:
        return None
    n, d = fr.numerator, fr.denominator
    rn, rd = math.isqrt(n), math.isqrt(d)
    if rn * rn == n and rd * rd == d:
        return Fraction(rn, rd)
    return None


# --------------------------------------------------------------------------
# engine hook (set by engine.py): branch on a z3 condition, static decision
# --------------------------------------------------------------------------

class _Hooks:
    branch = None        # callable(z3 BoolRef) -> bool
    decide_static = None  # callable(z3 BoolRef) -> True/False/None (under assumptions & PC)
    pick_int = None       # callable(z3 Int term) -> a feasible python int under assumptions & PC
    floor = None          # callable(Q) -> Q: integer part of a finite, non-negative rational value (fresh Int unknown)
    int_kinds = None      # callable() -> set of names of integer-valued inputs
    round_to = None       # callable(Q, ndigits) -> Q: nearest multiple of 10^-ndigits (fresh Int unknown)


HOOKS = _Hooks()


def static(flag, cheap=False):
    """Try to turn a symbolic flag into a Python bool (entailment under assumptions & PC).
    cheap=True: only syntactic simplification (no solver call) - used where the flag is typically non-linear."""
    if isb(flag):
        return bool(flag)
    if cheap:
        f = z3.simplify(flag)
        if z3.is_true(f):
            return True
        if z3.is_false(f):
            return False
        return flag
    if HOOKS.decide_static is not None:
        r = HOOKS.decide_static(flag)
        if r is not None:
            return r
    return flag


# --------------------------------------------------------------------------
class SymBool:
    __slots__ = ("e",)
    __array_ufunc__ = None  # numpy defers to our reflected operators

    def __init__(self, e):
        self.e = e

    @staticmethod
    def mk(e):
        if isb(e):
            return bool(e)
        e = z3.simplify(e)
        if z3.is_true(e):
            return True
        if z3.is_false(e):
            return False
        return SymBool(e)

    def __bool__(self):
        return HOOKS.branch(self.e)

    def __invert__(self):
        return SymBool.mk(z3.Not(self.e))

    def __and__(self, o):
        o = sb_expr(o)
        return SymBool.mk(band(self.e, o))

    __rand__ = __and__

    def __or__(self, o):
        o = sb_expr(o)
        return SymBool.mk(bor(self.e, o))

    __ror__ = __or__

    def __xor__(self, o):
        o = sb_expr(o)
        return SymBool.mk(z3.Xor(bz(self.e), bz(o)))

    __rxor__ = __xor__

    def __eq__(self, o):
        return SymBool.mk(biff(self.e, sb_expr(o)))

    def __ne__(self, o):
        return SymBool.mk(bnot(biff(self.e, sb_expr(o))))

    __hash__ = None

    def __deepcopy__(self, memo):
        return self

    def __copy__(self):
        return self

    def __repr__(self):
        return "SymBool(%s)" % self.e

    # arithmetic on booleans (True == 1) is occasionally used (sum of masks)
    def _asq(self):
        return Q(pite(self.e, Fraction(1), Fraction(0)), 1)

    def __add__(self, o):
        return self._asq() + o

    __radd__ = __add__

    def __mul__(self, o):
        return self._asq() * o

    __rmul__ = __mul__


class SymInt:
    """symbolic integer over Z (windows, ids, thresholds). Comparisons are symbolic; __index__/__int__ concretise by forking
    over the feasible values (the library's own guards bound them)."""
    __slots__ = ("z", "name", "domain")
    __array_ufunc__ = None

    def __init__(self, z, name, domain=None):
        self.z = z
        self.name = name
        self.domain = domain     # identifiers it may be compared with: hashing forks over "== c" for c in domain, else 'other'

    def classify(self):
        """the identifier of the domain this value equals on the current path, or None (differs from all of them)"""
        for c in self.domain:
            if bool(self == c):
                return c
        return None

    def _o(self, o):
        if isinstance(o, SymInt):
            return o.z
        if isinstance(o, (int, np.integer)) and not isinstance(o, bool):
            return z3.IntVal(int(o))
        return None

    def __lt__(self, o):
        z = self._o(o)
        return NotImplemented if z is None else SymBool.mk(self.z < z)

    def __le__(self, o):
        z = self._o(o)
        return NotImplemented if z is None else SymBool.mk(self.z <= z)

    def __gt__(self, o):
        z = self._o(o)
        return NotImplemented if z is None else SymBool.mk(self.z > z)

    def __ge__(self, o):
        z = self._o(o)
        return NotImplemented if z is None else SymBool.mk(self.z >= z)

    def __eq__(self, o):
        z = self._o(o)
        if z is None:
            return False
        return SymBool.mk(self.z == z)

    def __ne__(self, o):
        z = self._o(o)
        if z is None:
            return True
        return SymBool.mk(self.z != z)

    def __bool__(self):
        return bool(SymBool.mk(self.z != 0))

    def __deepcopy__(self, memo):
        return self

    def concretize(self):
        while True:
            v = HOOKS.pick_int(self.z)
            if HOOKS.branch(self.z == v):
                return v

    def __index__(self):
        if self.domain is not None:
            c = self.classify()
            if c is None:
                raise Unsupported("symbolic id outside its identifier domain used as an index")
            return c
        return self.concretize()

    __int__ = __index__

    def __hash__(self):
        if self.domain is not None:
            # class-forking hash: one path stands for "equals identifier c" per c, and one for "any other value in Z"
            c = self.classify()
            return hash(c) if c is not None else hash(("other-id", self.name))
        return hash(self.concretize())

    def _asq(self):
        return Q(Lin.var("toreal!" + self.name, z3.ToReal(self.z)))

    def __repr__(self):
        return "SymInt(%s)" % self.name

    def __add__(self, o):
        return self._asq() + o

    __radd__ = __add__

    def __sub__(self, o):
        return self._asq() - o

    def __rsub__(self, o):
        return o - self._asq()

    def __mul__(self, o):
        return self._asq() * o

    __rmul__ = __mul__

    def __truediv__(self, o):
        return self._asq() / o

    def __rtruediv__(self, o):
        return o / self._asq()


def sb_expr(o):
    if isinstance(o, SymBool):
        return o.e
    if isb(o):
        return bool(o)
    if isinstance(o, z3.BoolRef):
        return o
    if isinstance(o, (int, float)) and o in (0, 1):
        return bool(o)
    raise Unsupported("boolean operand %r" % (o,))


# --------------------------------------------------------------------------
class Q:
    """Extended real, fraction-radical normal form."""

    __slots__ = ("n", "d", "rn", "rd", "nan", "inf", "sg", "absof")

    def __init__(self, n, d=1, rn=None, rd=None, nan=False, inf=False, sg=1):
        self.n = n
        self.d = d
        self.rn = rn
        self.rd = rd
        self.nan = nan
        self.inf = inf
        self.sg = sg
        self.absof = None

    # ---- construction ----------------------------------------------------
    @staticmethod
    def lift(x):
        if isinstance(x, Q):
            return x
        if isinstance(x, np.ndarray):
            raise Unsupported("cannot lift an ndarray to a symbolic real")
        if isinstance(x, SymBool):
            return x._asq()
        if isinstance(x, (bool, np.bool_)):
            return Q(Fraction(int(x)))
        if isinstance(x, (int, np.integer)):
            return Q(Fraction(int(x)))
        if isinstance(x, Fraction):
            return Q(x)
        if isinstance(x, (float, np.floating)):
            x = float(x)
            if math.isnan(x):
                return Q(Fraction(0), nan=True)
            if math.isinf(x):
                return Q(Fraction(0), inf=True, sg=Fraction(1 if x > 0 else -1))
            return Q(Fraction(x))
        if x is None:
            # numpy turns None into nan when casting object->float
            return Q(Fraction(0), nan=True)
        if hasattr(x, "_asq"):
            return x._asq()
        raise Unsupported("cannot lift a %s to a symbolic real" % type(x).__name__)

    NAN = None

    @property
    def is_const(self):
        return (
            isc(self.n) and isc(self.d) and self.rn is None
            and isb(self.nan) and isb(self.inf)
        )

    def __round__(self, ndigits=None):
        """round(x, n): a multiple k / 10^n with |x * 10^n - k| <= 1/2 (k a fresh integer unknown; either tie rule is allowed)"""
        n = 0 if ndigits is None else int(ndigits)
        if self.is_const:
            v = self.const_value()
            return Q.lift(round(v, n)) if v == v and abs(v) != float("inf") else self
        if not (isb(self.nan) and not self.nan and isb(self.inf) and not self.inf and self.rn is None and isc(self.d) and self.d == 1):
            raise Unsupported("round() of a symbolic value that is not a finite linear form")
        if HOOKS.round_to is None:
            raise Unsupported("round() of symbolic data outside an engine run")
        return HOOKS.round_to(self, n)

    def to_int64(self):
        """C cast of a finite non-negative value to int64 (truncation): identity on integer-valued linear forms, otherwise
        a fresh integer unknown k with k <= x < k + 1"""
        if self.is_const:
            return Q.lift(int(self.const_value()))
        if not (isb(self.nan) and not self.nan and isb(self.inf) and not self.inf and self.rn is None and isc(self.d) and self.d == 1):
            raise Unsupported("integer cast of a value that is not a finite polynomial")
        if isinstance(self.n, Lin) and HOOKS.int_kinds is not None:
            ints = HOOKS.int_kinds()
            if all(nm in ints and co.denominator == 1 for nm, co in self.n.t) and self.n.c.denominator == 1:
                return self
        if HOOKS.floor is None:
            raise Unsupported("integer cast of symbolic data outside an engine run")
        return HOOKS.floor(self)

    def const_value(self):
        """float value of a constant Q (nan/inf included) or raise."""
        if isb(self.nan) and self.nan:
            return float("nan")
        if isb(self.inf) and self.inf and isc(self.sg):
            return float("inf") if self.sg > 0 else float("-inf")
        if isc(self.n) and isc(self.d) and isb(self.nan) and isb(self.inf):
            q = Fraction(self.n) / Fraction(self.d)
            if self.rn is None:
                return float(q)
            if isc(self.rn) and isc(self.rd):
                return float(q) * math.sqrt(Fraction(self.rn) / Fraction(self.rd))
        raise Unsupported("symbolic value used where a concrete number is required")

    def __float__(self):
        return self.const_value()

    def __deepcopy__(self, memo):
        return self          # immutable value

    def __copy__(self):
        return self

    def __bool__(self):
        """truthiness of a float: x != 0 (NaN is truthy); forks when undecided"""
        return bool(SymBool.mk(bnot(self._eq(Q.lift(0)))))

    def astype(self, dtype, *a, **k):
        """numpy-scalar protocol: a 0-d measure value cast to float stays symbolic"""
        import numpy as _np
        if _np.dtype(dtype).kind == "f":
            return self
        return _np.dtype(dtype).type(self.const_value())

    @property
    def shape(self):
        return ()

    @property
    def ndim(self):
        return 0

    def __int__(self):
        v = self.const_value()
        return int(v)

    def __index__(self):
        v = self.const_value()
        if v != int(v):
            raise TypeError("non-integer index")
        return int(v)

    def __repr__(self):
        try:
            return "Q(%r)" % self.const_value()
        except Unsupported:
            s = "Q(%s / %s" % (self.n, self.d)
            if self.rn is not None:
                s += " * sqrt(%s / %s)" % (self.rn, self.rd)
            if not (isb(self.nan) and not self.nan):
                s += " nan?"
            if not (isb(self.inf) and not self.inf):
                s += " inf?"
            return s + ")"

    __hash__ = None

    # ---- helpers -----------------------------------------------------------
    @property
    def fin(self):
        return band(bnot(self.nan), bnot(self.inf))

    def _finzero(self):
        """finite part equals zero (ignoring flags)"""
        z = p_is0(self.n)
        if self.rn is not None:
            z = bor(z, p_is0(self.rn))
        return z

    @property
    def zero(self):
        return band(self.fin, self._finzero())

    def _qsign(self):
        """polynomial whose sign is the sign of the finite part (when radicand > 0)"""
        if isc(self.d):
            return self.n if self.d > 0 else pneg(self.n)
        return pmul(self.n, self.d)

    def _qpos(self):
        """q = n/d > 0, by sign split"""
        if isc(self.d):
            return p_gt0(self.n) if self.d > 0 else p_lt0(self.n)
        return bor(band(p_gt0(self.n), p_gt0(self.d)), band(p_lt0(self.n), p_lt0(self.d)))

    def _qneg(self):
        if isc(self.d):
            return p_lt0(self.n) if self.d > 0 else p_gt0(self.n)
        return bor(band(p_lt0(self.n), p_gt0(self.d)), band(p_gt0(self.n), p_lt0(self.d)))

    def _sgn(self):
        """sign carrier valid both for finite and infinite values"""
        return pite(self.inf, self.sg, self._qsign())

    def _same_rad(self, o):
        if self.rn is None and o.rn is None:
            return True
        if self.rn is None or o.rn is None:
            return False
        return peq(self.rn, o.rn) and peq(self.rd, o.rd)

    # ---- arithmetic --------------------------------------------------------
    def __neg__(self):
        return Q(pneg(self.n), self.d, self.rn, self.rd, self.nan, self.inf, pneg(self.sg))

    def __pos__(self):
        return self

    def __add__(self, o):
        try:
            o = Q.lift(o)
        except Unsupported:
            return NotImplemented
        a, b = self, o
        # finite part
        if a.rn is None and b.rn is None:
            if peq(a.d, b.d):
                n, d = padd(a.n, b.n), a.d
            else:
                n = padd(pmul(a.n, b.d), pmul(b.n, a.d))
                d = pmul(a.d, b.d)
            rn = rd = None
        elif isc(a.n) and a.n == 0:
            n, d, rn, rd = b.n, b.d, b.rn, b.rd
        elif isc(b.n) and b.n == 0:
            n, d, rn, rd = a.n, a.d, a.rn, a.rd
        elif a._same_rad(b):
            if peq(a.d, b.d):
                n, d = padd(a.n, b.n), a.d
            else:
                n = padd(pmul(a.n, b.d), pmul(b.n, a.d))
                d = pmul(a.d, b.d)
            rn, rd = a.rn, a.rd
        else:
            raise Unsupported("sum of two values with different radicals")
        ainf, binf = a.inf, b.inf
        if isb(ainf) and not ainf and isb(binf) and not binf:
            return Q(n, d, rn, rd, bor(a.nan, b.nan), False, 1)
        opp = band(ainf, binf, p_lt0(pmul(a.sg, b.sg)))
        nan = bor(a.nan, b.nan, opp)
        inf = band(bor(ainf, binf), bnot(nan))
        sg = pite(ainf, a.sg, b.sg)
        return Q(n, d, rn, rd, nan, inf, sg)

    __radd__ = __add__

    def __sub__(self, o):
        try:
            o = Q.lift(o)
        except Unsupported:
            return NotImplemented
        return self + (-o)

    def __rsub__(self, o):
        try:
            o = Q.lift(o)
        except Unsupported:
            return NotImplemented
        return o + (-self)

    def __mul__(self, o):
        try:
            o = Q.lift(o)
        except Unsupported:
            return NotImplemented
        a, b = self, o
        n = pmul(a.n, b.n)
        d = pmul(a.d, b.d)
        if a.rn is None:
            rn, rd = b.rn, b.rd
        elif b.rn is None:
            rn, rd = a.rn, a.rd
        elif a._same_rad(b):
            n = pmul(n, a.rn)
            d = pmul(d, a.rd)
            rn = rd = None
        else:
            rn, rd = pmul(a.rn, b.rn), pmul(a.rd, b.rd)
        if rn is not None and isc(rn) and isc(rd):
            r = _isqrt_frac(Fraction(rn) / Fraction(rd)) if rd != 0 else None
            if r is not None:
                n, rn, rd = pmul(n, r), None, None
        ainf, binf = a.inf, b.inf
        if isb(ainf) and not ainf and isb(binf) and not binf:
            return Q(n, d, rn, rd, bor(a.nan, b.nan), False, 1)
        nan = bor(a.nan, b.nan, band(ainf, b.zero), band(binf, a.zero))
        inf = band(bor(ainf, binf), bnot(nan))
        sg = pmul(a._sgn(), b._sgn())
        return Q(n, d, rn, rd, nan, inf, sg)

    __rmul__ = __mul__

    def __truediv__(self, o):
        try:
            o = Q.lift(o)
        except Unsupported:
            return NotImplemented
        a, b = self, o
        if peq(a.d, b.d):
            n, d = a.n, b.n       # (x/s) / (y/s) = x / y   (s != 0 on finite values)
        else:
            n = pmul(a.n, b.d)
            d = pmul(a.d, b.n)
        # radicals: sqrt(ra) / sqrt(rb) = sqrt(ra / rb)
        if b.rn is None:
            rn, rd = a.rn, a.rd
        elif a.rn is None:
            rn, rd = b.rd, b.rn
        elif a._same_rad(b):
            rn = rd = None
        else:
            rn, rd = pmul(a.rn, b.rd), pmul(a.rd, b.rn)
        if isc(b.n) and isc(b.d) and b.rn is None and isb(b.nan) and isb(b.inf) and not b.nan and not b.inf and b.n != 0:
            # division by a non-zero constant: flags of a carry over
            sg = a.sg if b.n * b.d > 0 else pneg(a.sg)
            return Q(n, d, rn, rd, a.nan, a.inf, sg)
        bz_ = b.zero
        az_ = a.zero
        binf = b.inf
        nan = bor(a.nan, b.nan, band(a.inf, binf), band(az_, bz_))
        inf = band(bnot(nan), bor(a.inf, band(a.fin, bnot(a._finzero()), bz_)))
        if not (isb(binf) and not binf):
            binf = static(binf)
            if not (isb(binf) and not binf):
                # finite / inf = 0
                n = pite(binf, Fraction(0), n)
                d = pite(binf, Fraction(1), d)
        if isb(inf) and not inf:
            sg = 1
        else:
            sg = pmul(a._sgn(), pite(bz_, Fraction(1), b._sgn()))
        return Q(n, d, rn, rd, nan, inf, sg)

    def __rtruediv__(self, o):
        try:
            o = Q.lift(o)
        except Unsupported:
            return NotImplemented
        return o / self

    def sqrt(self):
        a = self
        if a.rn is not None and a.absof is not None:
            # sqrt(|x|): fall back to an if-then-else form of |x| (solver stage)
            x = a.absof
            lin = (isinstance(x.n, Lin) or isc(x.n)) and (isinstance(x.d, Lin) or isc(x.d))
            return Q.ite(x._lt(Q.lift(0)), -x, x, cheap=not lin).sqrt()
        if a.rn is not None:
            raise Unsupported("sqrt of a radical")
        if isc(a.n) and isc(a.d) and a.d != 0:
            fr = Fraction(a.n) / Fraction(a.d)
            r = _isqrt_frac(fr)
            if r is not None:
                return Q(r, 1, None, None, a.nan, band(a.inf, p_gt0(a.sg)), 1)
            if fr < 0:
                return Q(Fraction(0), 1, None, None, bor(a.nan, a.fin, band(a.inf, p_lt0(a.sg))), False, 1)
        neg = band(a.fin, a._qneg())
        nan = bor(a.nan, neg, band(a.inf, p_lt0(a.sg)))
        inf = band(a.inf, p_gt0(a.sg))
        return Q(Fraction(1), Fraction(1), a.n, a.d, nan, inf, 1)

    def __abs__(self):
        a = self
        if a.rn is None:
            if isc(a.n) and isc(a.d):
                return Q(abs(Fraction(a.n)), abs(Fraction(a.d)), None, None, a.nan, a.inf, 1)
            nonneg = static(bor(a.nan, a.inf, bnot(a._qneg())), cheap=not (isinstance(a.n, Lin) or isc(a.n)) or not (isinstance(a.d, Lin) or isc(a.d)))
            if isb(nonneg) and nonneg:
                return Q(a.n, a.d, None, None, a.nan, a.inf, 1)
            # |q| = sqrt(q^2): stays in normal form (no ite)
            r = Q(Fraction(1), Fraction(1), pmul(a.n, a.n), pmul(a.d, a.d), a.nan, a.inf, 1)
            r.absof = a
            return r
        return Q(Fraction(1), Fraction(1), pmul(pmul(a.n, a.n), a.rn), pmul(pmul(a.d, a.d), a.rd), a.nan, a.inf, 1)

    def __pow__(self, e):
        if isinstance(e, Q):
            e = e.const_value()
        if isinstance(e, (float, np.floating)) and float(e) == int(e):
            e = int(e)
        if isinstance(e, (int, np.integer)):
            e = int(e)
            if e == 0:
                return Q(Fraction(1))
            if e < 0:
                return Q(Fraction(1)) / (self ** (-e))
            r = self
            for _ in range(e - 1):
                r = r * self
            return r
        if e == 0.5:
            return self.sqrt()
        raise Unsupported("power with exponent %r" % (e,))

    def __rpow__(self, b):
        raise Unsupported("symbolic exponent")

    # ---- comparisons (numpy semantics: anything with nan is False) ---------
    def _core_eq(self, o):
        a, b = self, o
        if peq(a.n, b.n) and peq(a.d, b.d) and a._same_rad(b):
            return True
        if a.rn is None and b.rn is None:
            if peq(a.d, b.d):
                return p_is0_poly(psub(a.n, b.n))
            return p_is0_poly(psub(pmul(a.n, b.d), pmul(b.n, a.d)))
        # radicals: equal iff both zero, or same sign and equal squares
        za, zb = a._finzero(), b._finzero()
        same_sign = bor(band(a._qpos(), b._qpos()), band(a._qneg(), b._qneg()))
        return bor(band(za, zb), band(bnot(za), bnot(zb), same_sign, a._sq_cmp(b, "eq")))

    def _sq_parts(self):
        """(num, den) with value^2 = num/den and den > 0 whenever the value is well formed"""
        num = pmul(self.n, self.n)
        den = pmul(self.d, self.d)
        if self.rn is not None:
            # rn/rd >= 0 ; multiply numerator by rn*rd and denominator by rd^2 to keep den > 0
            num = pmul(num, pmul(self.rn, self.rd))
            den = pmul(den, pmul(self.rd, self.rd))
        return num, den

    def _sq_cmp(self, o, op):
        an, ad = self._sq_parts()
        bn, bd = o._sq_parts()
        if peq(ad, bd):
            l, r = an, bn
        else:
            l, r = pmul(an, bd), pmul(bn, ad)
        diff = psub(l, r)
        if op == "eq":
            return p_is0_poly(diff)
        if op == "lt":
            return p_lt0(diff)
        raise AssertionError(op)

    def _core_lt(self, o):
        a, b = self, o
        if a.rn is None and b.rn is None:
            if peq(a.d, b.d):
                if isc(a.d):
                    diff = psub(a.n, b.n)
                    return p_lt0(diff) if a.d > 0 else p_gt0(diff)
                diff = psub(a.n, b.n)
                return bor(band(p_lt0(diff), p_gt0(a.d)), band(p_gt0(diff), p_lt0(a.d)))
            if isc(a.d) and isc(b.d):
                if a.d == 0 or b.d == 0:
                    return False    # not a finite value (flags decide)
                l = pmul(a.n, Fraction(1) / a.d)
                r = pmul(b.n, Fraction(1) / b.d)
                return p_lt0(psub(l, r))
            # n_a/d_a < n_b/d_b  <=>  N / D < 0  with N = n_a d_b - n_b d_a, D = d_a d_b: split on signs
            N = psub(pmul(a.n, b.d), pmul(b.n, a.d))
            dap, dan = p_gt0(a.d), p_lt0(a.d)
            dbp, dbn = p_gt0(b.d), p_lt0(b.d)
            Dpos = bor(band(dap, dbp), band(dan, dbn))
            Dneg = bor(band(dap, dbn), band(dan, dbp))
            return bor(band(p_lt0(N), Dpos), band(p_gt0(N), Dneg))
        za, zb = a._finzero(), b._finzero()
        nega = band(bnot(za), a._qneg())
        negb = band(bnot(zb), b._qneg())
        posa = band(bnot(za), a._qpos())
        posb = band(bnot(zb), b._qpos())
        return bor(
            band(nega, bnot(negb)),
            band(za, posb),
            band(posa, posb, a._sq_cmp(b, "lt")),
            band(nega, negb, b._sq_cmp(a, "lt")),
        )

    def _lt(self, o):
        a, b = self, o
        core = band(a.fin, b.fin, a._core_lt(b))
        if isb(a.inf) and not a.inf and isb(b.inf) and not b.inf:
            return core
        ok = band(bnot(a.nan), bnot(b.nan))
        a_ninf = band(a.inf, p_lt0(a.sg))
        a_pinf = band(a.inf, p_gt0(a.sg))
        b_ninf = band(b.inf, p_lt0(b.sg))
        b_pinf = band(b.inf, p_gt0(b.sg))
        return band(ok, bor(band(a_ninf, bnot(b_ninf)), band(b_pinf, bnot(a_pinf)), core))

    def _eq(self, o):
        a, b = self, o
        core = band(a.fin, b.fin, a._core_eq(b))
        if isb(a.inf) and not a.inf and isb(b.inf) and not b.inf:
            return core
        both_inf = band(bnot(a.nan), bnot(b.nan), a.inf, b.inf, p_gt0(pmul(a.sg, b.sg)))
        return bor(core, both_inf)

    def __lt__(self, o):
        try:
            o = Q.lift(o)
        except Unsupported:
            return NotImplemented
        return SymBool.mk(self._lt(o))

    def __gt__(self, o):
        try:
            o = Q.lift(o)
        except Unsupported:
            return NotImplemented
        return SymBool.mk(o._lt(self))

    def __le__(self, o):
        try:
            o = Q.lift(o)
        except Unsupported:
            return NotImplemented
        return SymBool.mk(bor(self._lt(o), self._eq(o)))

    def __ge__(self, o):
        try:
            o = Q.lift(o)
        except Unsupported:
            return NotImplemented
        return SymBool.mk(bor(o._lt(self), self._eq(o)))

    def __eq__(self, o):
        try:
            o = Q.lift(o)
        except Unsupported:
            return NotImplemented
        return SymBool.mk(self._eq(o))

    def __ne__(self, o):
        try:
            o = Q.lift(o)
        except Unsupported:
            return NotImplemented
        return SymBool.mk(bnot(self._eq(o)))

    def isnan(self):
        return SymBool.mk(self.nan)

    def isinf(self):
        return SymBool.mk(self.inf)

    # ---- if-then-else --------------------------------------------------------
    @staticmethod
    def ite(c, a, b, cheap=False):
        """c ? a : b (c: bool | z3 BoolRef | SymBool)"""
        if isinstance(c, SymBool):
            c = c.e
        if isb(c):
            return Q.lift(a if c else b)
        a, b = Q.lift(a), Q.lift(b)
        c2 = static(c, cheap=cheap)
        if isb(c2):
            return a if c2 else b
        if a.rn is None and b.rn is None:
            rn = rd = None
        elif a._same_rad(b):
            rn, rd = a.rn, a.rd
        else:
            arn, ard = (a.rn, a.rd) if a.rn is not None else (Fraction(1), Fraction(1))
            brn, brd = (b.rn, b.rd) if b.rn is not None else (Fraction(1), Fraction(1))
            rn, rd = pite(c, arn, brn), pite(c, ard, brd)
        return Q(
            pite(c, a.n, b.n), pite(c, a.d, b.d), rn, rd,
            bite(c, a.nan, b.nan), bite(c, a.inf, b.inf), pite(c, a.sg, b.sg),
        )

    def minimum(self, o):
        o = Q.lift(o)
        r = Q.ite(self._lt(o), self, o, cheap=True)
        r.nan = bor(self.nan, o.nan)
        r.inf = band(r.inf, bnot(r.nan))
        return r

    def maximum(self, o):
        o = Q.lift(o)
        r = Q.ite(o._lt(self), self, o, cheap=True)
        r.nan = bor(self.nan, o.nan)
        r.inf = band(r.inf, bnot(r.nan))
        return r

    def nan_to(self, repl):
        """value with NaN replaced by `repl` (np.nan_to_num / nansum building block).
        A NaN flag that is not decided on the current path FORKS the path (both sides stay polynomial)
        instead of putting an if-then-else into the term."""
        nan = static(self.nan)
        if not isb(nan):
            nan = HOOKS.branch(nan) if HOOKS.branch is not None else nan
        if isb(nan):
            if nan:
                return Q.lift(repl)
            return Q(self.n, self.d, self.rn, self.rd, False, self.inf, self.sg)
        return Q.ite(self.nan, repl, Q(self.n, self.d, self.rn, self.rd, False, self.inf, self.sg))

    # ---- numpy protocol for 0-d use: np.sqrt(q), np.isnan(q), ndarray * q ----
    def __array_ufunc__(self, ufunc, method, *inputs, **kwargs):
        from . import array as _arr
        return _arr.sym_ufunc(ufunc, method, inputs, kwargs)

    # ---- evaluation under a model ---------------------------------------------
    def evaluate(self, ev):
        """float value under `ev` (callable: z3 term -> Fraction / bool)."""
        def fb(x):
            return bool(x) if isb(x) else ev(x)

        def fp(x):
            return Fraction(x) if isc(x) else ev(zr(x))

        if fb(self.nan):
            return float("nan")
        if fb(self.inf):
            return float("inf") if fp(self.sg) > 0 else float("-inf")
        d = fp(self.d)
        n = fp(self.n)
        if d == 0:
            raise Unsupported("normal-form invariant broken: zero denominator on a finite value")
        v = n / d
        if self.rn is None:
            return float(v)
        rd = fp(self.rd)
        rn = fp(self.rn)
        if rd == 0:
            if n == 0:
                return 0.0
            raise Unsupported("normal-form invariant broken: zero radicand denominator")
        r = rn / rd
        if r < 0:
            raise Unsupported("normal-form invariant broken: negative radicand")
        return float(v) * math.sqrt(r)


Q.NAN = Q(Fraction(0), nan=True)


class PyReal(Q):
    """a number read as a *Python* scalar from the response dict (filter statistics, population):
    division by zero raises ZeroDivisionError (on its own path) instead of producing inf/NaN."""
    __slots__ = ()

    @staticmethod
    def of(q):
        q = Q.lift(q)
        r = PyReal(q.n, q.d, q.rn, q.rd, q.nan, q.inf, q.sg)
        return r

    def __add__(self, o):
        if isinstance(o, np.ndarray):
            return NotImplemented
        r = Q.__add__(self, o)
        return r if r is NotImplemented else PyReal.of(r)

    __radd__ = __add__

    def __sub__(self, o):
        if isinstance(o, np.ndarray):
            return NotImplemented
        r = Q.__sub__(self, o)
        return r if r is NotImplemented else PyReal.of(r)

    def __mul__(self, o):
        if isinstance(o, np.ndarray):
            return NotImplemented
        r = Q.__mul__(self, o)
        return r if r is NotImplemented else PyReal.of(r)

    __rmul__ = __mul__

    def __truediv__(self, o):
        if isinstance(o, (PyReal, int, float)) and not isinstance(o, bool):
            oq = Q.lift(o)
            if bool(SymBool.mk(oq._eq(Q.lift(0)))):
                raise ZeroDivisionError("division by zero")
            return PyReal.of(Q.__truediv__(self, oq))
        if o is None:
            raise TypeError("unsupported operand type(s) for /: 'float' and 'NoneType'")
        return Q.__truediv__(self, o)

    def __rtruediv__(self, o):
        if o is None:
            raise TypeError("unsupported operand type(s) for /: 'NoneType' and 'float'")
        if bool(SymBool.mk(self._eq(Q.lift(0)))):
            raise ZeroDivisionError("division by zero")
        return PyReal.of(Q.lift(o) / Q(self.n, self.d, self.rn, self.rd, self.nan, self.inf, self.sg))


def eqv(a, b):
    """Extended-real equivalence a == b (NaN == NaN), as a flag (bool | z3 BoolRef)."""
    if isinstance(a, SymBool) or isinstance(b, SymBool) or (isb(a) and isb(b)):
        return biff(sb_expr(a), sb_expr(b))
    a, b = Q.lift(a), Q.lift(b)
    both_fin = band(a.fin, b.fin)
    core = a._core_eq(b)
    if all(isb(x) and not x for x in (a.inf, b.inf)):
        return band(biff(a.nan, b.nan), bimp(bnot(a.nan), core))
    same_inf = band(a.inf, b.inf, p_gt0(pmul(a.sg, b.sg)))
    return band(
        biff(a.nan, b.nan),
        bimp(bnot(a.nan), band(biff(a.inf, b.inf), bimp(a.inf, same_inf), bimp(both_fin, core))),
    )


def eqv_strong(a, b):
    """A *sufficient* condition for eqv(a, b) made of component-wise equalities (numerators, denominators,
    radicands, flags).  Linear whenever the parts are linear, so z3 decides it in LRA; None if not applicable."""
    if isinstance(a, SymBool) or isinstance(b, SymBool) or (isb(a) and isb(b)):
        return None
    a, b = Q.lift(a), Q.lift(b)
    if (a.rn is None) != (b.rn is None):
        return None
    parts = [biff(a.nan, b.nan), biff(a.inf, b.inf)]
    both_def = band(bnot(a.nan), bnot(a.inf))
    comp = [p_is0(psub(a.n, b.n)), p_is0(psub(a.d, b.d))]
    if a.rn is not None:
        comp += [p_is0(psub(a.rn, b.rn)), p_is0(psub(a.rd, b.rd))]
    parts.append(bimp(both_def, band(*comp)))
    if not (isb(a.inf) and not a.inf and isb(b.inf) and not b.inf):
        parts.append(bimp(a.inf, p_gt0(pmul(a.sg, b.sg))))
    return band(*parts)


def perturbed(b):
    """a value different from b wherever b is finite with a non-zero radicand: (n + d) / d * sqrt(r)  (canaries)"""
    b = Q.lift(b)
    return Q(padd(b.n, b.d), b.d, b.rn, b.rd, b.nan, b.inf, b.sg)
