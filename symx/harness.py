"""Scenario runner: symbolic paths -> witness replay -> VCs -> counterexample replay -> evidence."""
import collections
import hashlib
import json
import math
import multiprocessing as mp
import os
import re
import sys
import time
import traceback
import warnings
from fractions import Fraction

import numpy as np
import z3

from . import inject
from .array import SymArray
from .engine import Engine, PathBudgetExceeded, prove
from .scalar import Q, SymBool, Unsupported, bz, eqv, eqv_strong, isb, perturbed

VERIF = os.path.dirname(os.path.dirname(os.path.abspath(__file__)))
REPLAYS = os.path.join(VERIF, "replays")
EXIT_OK, EXIT_VIOLATION, EXIT_HARNESS = 0, 1, 2


PROFILE = {} if os.environ.get("SYMX_PROFILE") else None


class Obs:
    """one observation: public output `impl` against the property's defining expression `oracle`.
    kind: 'eqv'  extended-real equality, cell by cell (arrays must have equal shape)
          'holds' impl is a (symbolic) boolean that must be true
          'same'  plain python objects that must be equal
    """
    __slots__ = ("label", "impl", "oracle", "kind")

    def __init__(self, label, impl, oracle=None, kind="eqv"):
        self.label = label
        self.impl = impl
        self.oracle = oracle
        self.kind = kind


def _cells(x):
    """flatten to a list of (index, scalar)"""
    if isinstance(x, np.ndarray):
        b = x.view(np.ndarray)
        if b.ndim == 0:
            return [((), b[()])]
        return [(idx, b[idx]) for idx in np.ndindex(b.shape)]
    if isinstance(x, (list, tuple)):
        out = []
        for i, e in enumerate(x):
            for idx, s in _cells(e):
                out.append(((i,) + idx, s))
        return out
    return [((), x)]


def _shape(x):
    if isinstance(x, np.ndarray):
        return tuple(x.shape)
    if isinstance(x, (list, tuple)):
        return (len(x),) + (_shape(x[0]) if len(x) else ())
    return ()


def _num(x):
    if x is None:
        return None
    if isinstance(x, (bool, np.bool_)):
        return bool(x)
    try:
        return float(x)
    except Exception:
        return x


def _close(a, b, rtol=1e-6, atol=1e-9):
    a, b = _num(a), _num(b)
    if isinstance(a, float) and isinstance(b, float):
        if a != a or b != b:
            return a != a and b != b
        if math.isinf(a) or math.isinf(b):
            return a == b
        return math.isclose(a, b, rel_tol=rtol, abs_tol=atol)
    if isinstance(a, (bool, float)) and isinstance(b, (bool, float)):
        return float(a) == float(b)
    return a == b


def _jsonable(x):
    if isinstance(x, Fraction):
        return "%d/%d" % (x.numerator, x.denominator)
    if isinstance(x, (np.floating, float)):
        x = float(x)
        return x if x == x and not math.isinf(x) else repr(x)
    if isinstance(x, (np.integer,)):
        return int(x)
    if isinstance(x, (np.bool_, bool)):
        return bool(x)
    if isinstance(x, np.ndarray):
        return [_jsonable(e) for e in x.tolist()]
    if isinstance(x, (list, tuple)):
        return [_jsonable(e) for e in x]
    if isinstance(x, dict):
        return {str(k): _jsonable(v) for k, v in x.items()}
    if isinstance(x, (Q, SymBool)):
        return repr(x)[:200]
    if x is None or isinstance(x, (int, str)):
        return x
    return repr(x)[:200]


class ScenarioResult:
    def __init__(self, name):
        self.name = name
        self.status = "ok"          # ok | violation | inconclusive | harness_error
        self.messages = []
        self.violations = []        # dicts
        self.stats = {}
        self.paths = 0
        self.forks = 0
        self.vcs = 0
        self.discharged = collections.Counter()
        self.witnesses = 0
        self.canaries = 0
        self.samples = []
        self.functions = set()
        self.wall = 0.0
        self.solver_s = 0.0
        self.assumptions = []


def _trace_functions(fn):
    """names of /repo functions executed by fn() (first path only), via sys.monitoring"""
    names = set()
    mon = getattr(sys, "monitoring", None)
    if mon is None:
        return fn(), names
    tool = 3
    try:
        mon.use_tool_id(tool, "symx")
    except Exception:
        return fn(), names

    def on_start(code, offset):
        f = code.co_filename
        if "/cr/cube/" in f:
            names.add("%s:%s" % (f.split("/cr/cube/")[-1], code.co_qualname))
        return mon.DISABLE

    mon.register_callback(tool, mon.events.PY_START, on_start)
    mon.set_events(tool, mon.events.PY_START)
    try:
        return fn(), names
    finally:
        mon.set_events(tool, 0)
        mon.register_callback(tool, mon.events.PY_START, None)
        mon.free_tool_id(tool)
        mon.restart_events()


def run_scenario(spec):
    """spec: dict(prop, module, name, params, max_paths, vc_timeouts, seed)"""
    warnings.filterwarnings("ignore")
    np.seterr(all="ignore")
    t0 = time.time()
    res = ScenarioResult(spec["name"])
    try:
        _run_scenario(spec, res)
    except PathBudgetExceeded as e:
        res.status = "inconclusive"
        res.messages.append("path budget exceeded: %s" % e)
    except Exception as e:
        if res.status == "ok":
            res.status = "harness_error"
        res.messages.append("exception: %s" % traceback.format_exc()[-1500:])
    finally:
        inject.deactivate()
    res.wall = time.time() - t0
    if PROFILE:
        for k, (n, t) in sorted(PROFILE.items(), key=lambda kv: -kv[1][1])[:12]:
            print("PROFILE %s %-45s %-10s n=%d t=%.1fs" % (spec["name"], k[0], k[1], n, t))
        PROFILE.clear()
    res.functions = sorted(res.functions)
    return res


def _load_fn(spec):
    import importlib
    mod = importlib.import_module(spec["module"])
    return getattr(mod, spec["fn"])


def _concrete(eng, fn, params, model):
    inject.deactivate()
    try:
        fm = {k: float(v) for k, v in model.items()}
        try:
            return eng.run_concrete(lambda: fn(eng, **params), fm)
        except Exception as e:
            import traceback as _tb
            where = [f for f in _tb.extract_tb(e.__traceback__) if "/cr/cube/" in f.filename]
            if not where:
                raise
            loc = "%s:%s" % (where[-1].filename.split("/cr/cube/")[-1], where[-1].name)
            return [Obs("exception %s in %s" % (type(e).__name__, loc), "raised %s: %s" % (type(e).__name__, str(e)[:120]), "no exception", kind="same")]
    finally:
        inject.activate(eng)


def _run_scenario(spec, res):
    fn = _load_fn(spec)
    params = spec.get("params", {})
    eng = Engine(spec["name"])
    eng.feas_opts = dict(Engine.feas_opts, **(spec.get("feas_opts") or {}))
    inject.activate(eng)
    max_paths = spec.get("max_paths", 64)
    timeouts = tuple(spec.get("vc_timeouts", (2, 20)))
    canary_done = False
    canary_tries = 0
    first = True
    for pi, obs in _explore(eng, fn, params, max_paths, res):
        res.paths += 1
        # ---- witness: a model of the path, symbolic outputs evaluated under it vs. the real library
        model = eng.path_model()
        conc = None
        if model is None and getattr(eng, "last_path_status", None) == "unsat":
            # the branch decisions of this path were taken on 'unknown' feasibility answers; the full path condition is unsatisfiable
            res.messages.append("path %d: infeasible (path condition unsatisfiable), skipped" % pi)
            res.infeasible_paths = getattr(res, "infeasible_paths", 0) + 1
            continue
        if model is not None:
            ev = eng.evaluator(model)
            # a path whose condition mentions uninterpreted cdf values (p < alpha forks) is only witnessed by data whose REAL
            # cdf values satisfy it; the solver's model need not: such paths are verified (VCs) but not replayed
            try:
                real_ok = all(bool(ev(c)) for c in eng.pc)
            except Exception:
                real_ok = False
            if not real_ok:
                res.messages.append("path %d: solver witness does not satisfy the path condition under the real cdf; not replayed" % pi)
                model = None
        if model is not None:
            try:
                conc = _concrete(eng, fn, params, model)
            except Exception as e:
                res.status = "harness_error"
                res.messages.append("path %d: concrete run of the witness failed: %r" % (pi, e))
                return
            if len(conc) != len(obs):
                # the scenario's own (oracle-side) branches took another turn under floating point than under exact arithmetic at
                # this witness (e.g. an exact-zero test of a product): the witness cannot be replayed; the path is still verified
                res.messages.append("path %d: witness not replayed (concrete run produced %d observations, symbolic %d)" % (pi, len(conc), len(obs)))
                model = None
                conc = None
            for o, c in zip(obs, conc or []):
                if o.kind == "same":
                    if _jsonable(o.impl) != _jsonable(c.impl):
                        res.status = "harness_error"
                        res.messages.append("witness mismatch (engine unfaithful) %s: sym %r conc %r" % (o.label, o.impl, c.impl))
                        return
                    continue
                sv = ev.value(o.impl)
                cs, cc = _cells(sv), _cells(c.impl)
                if len(cs) != len(cc):
                    res.status = "harness_error"
                    res.messages.append("witness shape mismatch %s: %s vs %s" % (o.label, _shape(sv), _shape(c.impl)))
                    return
                for (idx, a), (_, b) in zip(cs, cc):
                    if not _close(a, b):
                        res.status = "harness_error"
                        res.messages.append("witness mismatch (engine unfaithful) %s%s: symbolic term evaluates to %r, library returns %r; model %s"
                                            % (o.label, list(idx), a, b, _jsonable(model)))
                        return
            if conc is not None:
                res.witnesses += 1
            # the witness is also a concrete test of the property
            for o, c in zip(obs, conc or []):
                bad = _concrete_mismatch(c)
                if bad is not None:
                    _report_violation(spec, res, eng, model, o.label, bad, "witness")
                    if len(res.violations) >= spec.get("max_violations", 3):
                        return
            if res.violations:
                # a replayed violation is established for this scenario: do not spend solver time on its remaining VCs
                return
        else:
            res.messages.append("path %d: no witness model found (feasibility unknown)" % pi)
        # ---- VCs
        for o in obs:
            if o.kind == "same":
                res.vcs += 1
                if _jsonable(o.impl) == _jsonable(o.oracle):
                    res.discharged["concrete"] += 1
                elif model is None:
                    # no data point is known to drive the library down this path: a difference seen on it is not a verdict
                    res.status = "inconclusive" if res.status == "ok" else res.status
                    res.messages.append("INCONCLUSIVE %s differs on path %d, for which no witness was found (feasibility unknown)" % (o.label, pi))
                else:
                    _report_violation(spec, res, eng, model, o.label,
                                      dict(index=[], impl=_jsonable(o.impl), oracle=_jsonable(o.oracle)), "concrete")
                continue
            if o.kind == "holds":
                goals = [(idx, _as_flag(c), None) for idx, c in _cells(o.impl)]
            else:
                if _shape(o.impl) != _shape(o.oracle):
                    _report_violation(spec, res, eng, model or {}, o.label,
                                      dict(index=[], impl="shape %s" % (_shape(o.impl),), oracle="shape %s" % (_shape(o.oracle),)), "shape")
                    continue
                goals = []
                for (idx, a), (_, b) in zip(_cells(o.impl), _cells(o.oracle)):
                    if a is None or b is None:
                        goals.append((idx, a is None and b is None, None))     # None is a value of its own, not NaN
                    else:
                        goals.append((idx, eqv(a, b), eqv_strong(a, b)))
            for idx, goal, strong in goals:
                res.vcs += 1
                r = prove(eng, goal, timeouts=timeouts, strong=strong)
                res.solver_s += r.time
                if PROFILE is not None:
                    k = (o.label.split("~")[0], r.stage)
                    PROFILE[k] = PROFILE.get(k, (0, 0.0))
                    PROFILE[k] = (PROFILE[k][0] + 1, PROFILE[k][1] + r.time)
                if r.verdict == "valid":
                    res.discharged[r.stage] += 1
                    if len(res.samples) < 3 and r.stage != "S0":
                        res.samples.append(dict(scenario=spec["name"], path=pi, pc_len=len(eng.pc), obs=o.label, cell=list(idx),
                                                vc=str(z3.simplify(bz(goal)))[:300], verdict="unsat(negation)", stage=r.stage, solver_s=round(r.time, 3)))
                elif r.verdict == "cex":
                    ok = _replay_cex(spec, res, eng, fn, params, r.model, o.label, idx)
                    if not ok:
                        return
                    if len(res.violations) >= spec.get("max_violations", 3):
                        return
                else:
                    res.status = "inconclusive" if res.status == "ok" else res.status
                    res.messages.append("INCONCLUSIVE vc %s%s on path %d (all solver stages unknown)" % (o.label, list(idx), pi))
                # ---- canary (vacuity guard): a deliberately wrong oracle must be refuted and must replay
                if not canary_done and canary_tries < 40 and o.kind == "eqv" and r.verdict == "valid" and r.stage != "S0" \
                        and not isinstance(dict(_cells(o.oracle))[idx], (SymBool, bool, np.bool_)):
                    a = dict(_cells(o.impl))[idx]
                    b = dict(_cells(o.oracle))[idx]
                    wrong = perturbed(b)
                    # refutation is searched at the path witness (pinned inputs): cheap, and still exercises
                    # the whole VC pipeline (encoding of the negated goal, model extraction)
                    try:
                        bv = ev.value(Q.lift(b)) if model is not None else float("nan")
                    except Exception:
                        bv = float("nan")
                    if bv != bv or bv in (float("inf"), float("-inf")):
                        continue    # undefined at the witness: not a meaningful canary cell
                    try:
                        if ev.value(wrong) == bv:
                            continue    # the perturbation vanishes here (zero radicand): not a meaningful canary cell
                    except Exception:
                        continue
                    canary_tries += 1
                    if model is not None and _canary_refuted(eng, eqv(a, wrong), model):
                        res.canaries += 1
                        canary_done = True
        if first and len(res.samples) == 0 and obs:
            o = obs[0]
            res.samples.append(dict(scenario=spec["name"], path=pi, pc_len=len(eng.pc), obs=o.label, note="all VCs of this path discharged syntactically (S0)"))
        first = False
    if canary_tries >= 1 and not canary_done:
        # a deliberately wrong oracle (+1) was never refuted on any path/cell: the VCs may be vacuous
        res.status = "harness_error"
        res.messages.append("canary never refuted in %d attempts: assumptions or path conditions may be vacuous" % canary_tries)
    res.forks = eng.stats.forks
    res.stats = eng.stats.as_dict()
    res.assumptions = [str(a)[:120] for a in eng.assumptions[:6]] + eng.assumption_notes


def _canary_refuted(eng, goal, model):
    if isb(goal):
        return not goal
    s = z3.Solver()
    s.set("timeout", 5000)
    for a in eng.assumptions:
        s.add(a)
    for c in eng.pc:
        s.add(c)
    for nm, v in eng.vars.items():
        if nm.startswith("uf!") or nm not in model:
            continue
        if eng.kinds[nm] == "int":
            s.add(v == int(model[nm]))
        else:
            s.add(v == z3.RealVal(str(Fraction(model[nm]))))
    s.add(z3.Not(bz(goal)))
    return s.check() == z3.sat


def _explore(eng, fn, params, max_paths, res):
    traced = [False]

    def guarded():
        try:
            return fn(eng, **params)
        except (Unsupported, PathBudgetExceeded):
            raise
        except Exception as e:
            from .engine import Infeasible
            if isinstance(e, Infeasible):
                raise
            import traceback as _tb
            frames = _tb.extract_tb(e.__traceback__)
            where = [f for f in frames if "/cr/cube/" in f.filename]
            if not where:
                raise          # raised by the harness itself, not by the library
            loc = "%s:%s" % (where[-1].filename.split("/cr/cube/")[-1], where[-1].name)
            return [Obs("exception %s in %s" % (type(e).__name__, loc), "raised %s: %s" % (type(e).__name__, str(e)[:120]), "no exception", kind="same")]

    def run():
        if not traced[0]:
            traced[0] = True
            out, names = _trace_functions(guarded)
            res.functions |= names
            return out
        return guarded()

    for pi, obs in eng.explore(run, max_paths=max_paths):
        yield pi, obs


def _as_flag(c):
    if isinstance(c, SymBool):
        return c.e
    if isb(c):
        return bool(c)
    if isinstance(c, z3.BoolRef):
        return c
    raise Unsupported("'holds' observation is not boolean: %r" % (c,))


def _concrete_mismatch(c):
    """first differing cell of a concrete observation, or None"""
    if c.kind == "same":
        if _jsonable(c.impl) != _jsonable(c.oracle):
            return dict(index=[], impl=_jsonable(c.impl), oracle=_jsonable(c.oracle))
        return None
    if c.kind == "holds":
        for idx, v in _cells(c.impl):
            if not bool(v):
                return dict(index=list(idx), impl=False, oracle=True)
        return None
    if _shape(c.impl) != _shape(c.oracle):
        return dict(index=[], impl="shape %s" % (_shape(c.impl),), oracle="shape %s" % (_shape(c.oracle),))
    for (idx, a), (_, b) in zip(_cells(c.impl), _cells(c.oracle)):
        if not _close(a, b):
            return dict(index=list(idx), impl=_jsonable(a), oracle=_jsonable(b))
    return None


def _replay_cex(spec, res, eng, fn, params, model, label, idx):
    """replay a solver counterexample on the unmodified library; True if handled (violation recorded)"""
    # uninterpreted-function values are artefacts of the encoding: strip, the concrete run uses scipy
    model = {k: v for k, v in model.items() if not k.startswith("uf!")}
    try:
        conc = _concrete(eng, fn, params, model)
    except Exception as e:
        res.status = "harness_error"
        res.messages.append("counterexample replay raised %r for %s%s model %s" % (e, label, list(idx), _jsonable(model)))
        return False
    for c in conc:
        if c.label == label:
            bad = _concrete_mismatch(c)
            if bad is not None:
                _report_violation(spec, res, eng, model, label, bad, "solver")
                return True
    res.status = "harness_error"
    res.messages.append("solver counterexample for %s%s did not reproduce on the real library (encoding suspect); model %s"
                        % (label, list(idx), _jsonable(model)))
    return False


def _report_violation(spec, res, eng, model, label, bad, source):
    sig = "%s|%s" % (spec["name"], label)
    for v in res.violations:
        if v["signature"] == sig:
            return
    rec = dict(property=spec["prop"], scenario=spec["name"], module=spec["module"], fn=spec["fn"], params=spec.get("params", {}),
               obs=label, cell=bad.get("index"), impl=bad.get("impl"), oracle=bad.get("oracle"), found_by=source,
               model={k: _jsonable(Fraction(v)) for k, v in model.items() if not k.startswith("uf!")}, signature=sig)
    res.violations.append(rec)
    res.status = "violation"


# -----------------------------------------------------------------------------------------
# known findings
# -----------------------------------------------------------------------------------------

def load_known(prop):
    p = os.path.join(VERIF, "known_findings.json")
    if not os.path.exists(p):
        return []
    data = json.load(open(p))
    return [f for f in data.get("findings", []) if f.get("property") == prop and f.get("status") == "known"]


def match_known(v, known):
    for f in known:
        if re.search(f["scenario_regex"], v["scenario"]) and re.search(f["obs_regex"], v["obs"]):
            return f
    return None


# -----------------------------------------------------------------------------------------
# property-level driver
# -----------------------------------------------------------------------------------------

def run_check(prop, specs, tier, seed, level="model_checking", jobs=None, bounds=None, extra_assumptions=None,
              stubs=None, outside=None, title=""):
    t0 = time.time()
    jobs = jobs or min(16, os.cpu_count() or 4)
    for s in specs:
        s.setdefault("prop", prop)
        s.setdefault("seed", seed)
    if seed:
        import random
        random.Random(seed).shuffle(specs)
    results = []
    if jobs > 1 and len(specs) > 1:
        ctx = mp.get_context("fork")
        with ctx.Pool(min(jobs, len(specs)), maxtasksperchild=8) as pool:
            for r in pool.imap_unordered(run_scenario, specs):
                results.append(r)
    else:
        for s in specs:
            results.append(run_scenario(s))
    known = load_known(prop)
    os.makedirs(REPLAYS, exist_ok=True)
    exit_code = EXIT_OK
    n_viol = 0
    known_hit = collections.OrderedDict()
    lines = []
    for r in results:
        for v in r.violations:
            f = match_known(v, known)
            if f is not None:
                known_hit.setdefault(f["id"], (f, v))
                continue
            n_viol += 1
            h = hashlib.sha1(json.dumps(v, sort_keys=True).encode()).hexdigest()[:12]
            d = os.path.join(REPLAYS, prop)
            os.makedirs(d, exist_ok=True)
            path = os.path.join(d, "%s.json" % h)
            json.dump(v, open(path, "w"), indent=1)
            lines.append("VIOLATION property=%s replay=%s" % (prop, path))
            lines.append("  scenario=%s obs=%s cell=%s impl=%s oracle=%s (found by %s)" % (v["scenario"], v["obs"], v["cell"], v["impl"], v["oracle"], v["found_by"]))
            exit_code = EXIT_VIOLATION
    for fid, (f, v) in known_hit.items():
        lines.append("KNOWN-FINDING: property=%s %s [%s; e.g. scenario=%s obs=%s impl=%s oracle=%s]" % (prop, f["description"], fid, v["scenario"], v["obs"], v["impl"], v["oracle"]))
    bad = [r for r in results if r.status in ("harness_error", "inconclusive")]
    for r in bad:
        for m in r.messages[:4]:
            lines.append("%s scenario=%s: %s" % (r.status.upper(), r.name, m))
    if bad and exit_code == EXIT_OK:
        exit_code = EXIT_HARNESS
    # ---- evidence
    disc = collections.Counter()
    funcs = set()
    samples = []
    for r in results:
        disc.update(r.discharged)
        funcs |= set(r.functions)
        for s in r.samples:
            if len(samples) < 6:
                samples.append(s)
    for r in results:
        for v in r.violations[:1]:
            if len(samples) < 10:
                samples.append(dict(scenario=v["scenario"], obs=v["obs"], cell=v["cell"], impl=v["impl"], oracle=v["oracle"],
                                    verdict="counterexample replayed on the real library", known=bool(match_known(v, known))))
    if not samples:
        samples.append(dict(note="no scenario produced a sample", scenarios=[r.name for r in results][:5]))
    paths = sum(r.paths for r in results)
    forks = sum(r.forks for r in results)
    vcs = sum(r.vcs for r in results)
    ev = {
        "property_id": prop,
        "tier": tier,
        "seed": int(seed or 0),
        "level": level,
        "coverage": {
            "states": paths,
            "transitions": max(forks, 0) + paths,
            "traces_validated_against_impl": sum(r.witnesses for r in results),
            "samples": samples,
            "obligations": vcs,
            "discharged": sum(disc.values()),
            "discharged_by_stage": dict(disc),
            "scenarios": len(results),
            "scenarios_by_status": dict(collections.Counter(r.status for r in results)),
            "paths_explored": paths,
            "fork_decisions": forks,
            "canaries_refuted": sum(r.canaries for r in results),
            "functions_encoded": sorted(funcs),
            "n_functions_encoded": len(funcs),
            "solver_wall_s": round(sum(r.solver_s for r in results), 2),
            "feasibility_queries": sum(r.stats.get("feas_queries", 0) for r in results),
            "bounds": bounds or {},
            "outside_the_claim": outside or [],
            "stubs": stubs or [],
            "explanation": "states = symbolic paths of the real cr.cube code explored (one per feasible combination of data-dependent branches); "
                           "transitions = fork decisions + path starts; obligations = per-cell verification conditions 'assumptions & path condition => output == oracle' "
                           "decided by z3 (S0 = syntactic normal form, S1/S2 = solver); traces_validated = path witnesses replayed on the unmodified library under plain numpy.",
            "exhaustive": False,
            "known_findings_reported": list(known_hit.keys()),
        },
        "assumptions": sorted(set(a for r in results for a in r.assumptions))[:12] + (extra_assumptions or []),
        "wall_s": round(time.time() - t0, 2),
        "violations": n_viol,
    }
    evdir = os.environ.get("SYMX_EVIDENCE_DIR") or os.path.join(VERIF, "evidence")     # redirected only by development runs
    os.makedirs(evdir, exist_ok=True)
    json.dump(ev, open(os.path.join(evdir, "%s.json" % prop), "w"), indent=1)
    for ln in lines:
        print(ln)
    slow = sorted(results, key=lambda r: -r.wall)[:3]
    print("slowest scenarios: " + "; ".join("%s %.0fs (%d paths, %d vcs)" % (r.name, r.wall, r.paths, r.vcs) for r in slow))
    print("%s %s tier=%s scenarios=%d paths=%d vcs=%d discharged=%s witnesses=%d canaries=%d violations=%d known=%d wall=%.1fs -> exit %d"
          % (prop, title, tier, len(results), paths, vcs, dict(disc), ev["coverage"]["traces_validated_against_impl"],
             ev["coverage"]["canaries_refuted"], n_viol, len(known_hit), time.time() - t0, exit_code))
    return exit_code


def replay_file(path):
    """re-run a recorded violation on the unmodified library; exit 1 if it still reproduces"""
    v = json.load(open(path))
    import importlib
    mod = importlib.import_module(v["module"])
    fn = getattr(mod, v["fn"])
    eng = Engine("replay")
    model = {}
    for k, s in v["model"].items():
        model[k] = float(Fraction(s)) if isinstance(s, str) else float(s)
    warnings.filterwarnings("ignore")
    np.seterr(all="ignore")
    try:
        conc = eng.run_concrete(lambda: fn(eng, **v["params"]), model)
    except Exception as e:
        import traceback as _tb
        where = [f for f in _tb.extract_tb(e.__traceback__) if "/cr/cube/" in f.filename]
        if not where:
            raise
        loc = "%s:%s" % (where[-1].filename.split("/cr/cube/")[-1], where[-1].name)
        conc = [Obs("exception %s in %s" % (type(e).__name__, loc), "raised %s: %s" % (type(e).__name__, str(e)[:120]), "no exception", kind="same")]
    for c in conc:
        if c.label == v["obs"]:
            bad = _concrete_mismatch(c)
            print("scenario=%s obs=%s" % (v["scenario"], v["obs"]))
            print(" impl  :", _jsonable(c.impl))
            print(" oracle:", _jsonable(c.oracle))
            if bad is not None:
                print("VIOLATION property=%s replay=%s" % (v["property"], path))
                return EXIT_VIOLATION
            print("does not reproduce on the current tree")
            return EXIT_OK
    print("observation %s not produced" % v["obs"])
    return EXIT_HARNESS
