"""Path engine: depth-first exploration by re-execution, z3 for feasibility, VC discharge."""
from fractions import Fraction
import math
import os
import pickle
import signal
import struct
import sys
import time

import numpy as np
import z3

try:
    sys.set_int_max_str_digits(0)
except AttributeError:
    pass

from . import scalar as S
from .scalar import Q, SymBool, Unsupported, isb, bz


class PathBudgetExceeded(Exception):
    pass


class Infeasible(Exception):
    """raised to abandon a path whose prefix turned out infeasible"""


def frac_of(v):
    """Fraction from a z3 numeral"""
    if z3.is_rational_value(v):
        try:
            return Fraction(v.numerator_as_long(), v.denominator_as_long())
        except Exception:
            return Fraction(v.as_string())
    if z3.is_int_value(v):
        return Fraction(v.as_long())
    if z3.is_algebraic_value(v):
        return Fraction(v.approx(30).numerator_as_long(), v.approx(30).denominator_as_long())
    raise Unsupported("non-numeral model value %s" % v)


class Stats:
    def __init__(self):
        self.paths = 0
        self.forks = 0
        self.feas_queries = 0
        self.feas_time = 0.0
        self.vcs = 0
        self.vc_s0 = 0
        self.vc_solver = 0
        self.vc_time = 0.0
        self.static_queries = 0
        self.witnesses = 0
        self.unknown_feas = 0
        self.vc_cached = 0

    def as_dict(self):
        return dict(self.__dict__)

    def add(self, o):
        for k, v in (o.items() if isinstance(o, dict) else o.__dict__.items()):
            setattr(self, k, getattr(self, k, 0) + v)


def _env_opts():
    out = {}
    for kv in filter(None, os.environ.get("SYMX_FEAS_OPTS", "").split(",")):      # development knob
        k, v = kv.split("=")
        out[k] = {"true": True, "false": False}.get(v, int(v) if v.isdigit() else v)
    return out


DEFAULT_FEAS_OPTS = _env_opts()


class Engine:
    """One engine per scenario. Symbolic inputs persist across the re-executed paths."""

    FEAS_TIMEOUT_MS = 3000
    # z3 options of the path-feasibility and witness solvers; a scenario's spec["feas_opts"] is merged over the default
    feas_opts = dict(DEFAULT_FEAS_OPTS)
    STATIC_TIMEOUT_MS = 500

    def __init__(self, name="scenario"):
        self.name = name
        self.vars = {}          # name -> z3 const
        self.kinds = {}         # name -> 'real' | 'int' | 'bool'
        self.assumptions = []   # z3 BoolRefs
        self.assumption_notes = []
        self._floors = {}
        self.stats = Stats()
        self._valid_nopc = {}   # goal ast id -> goal (kept alive): proved without path condition
        self.concrete = None    # dict name -> value when running concretely
        self.guide = None       # model dict for concolic runs
        self._reset_path()

    # ---- inputs ---------------------------------------------------------------
    def real(self, name, lo=None, hi=None, strict_lo=None):
        if self.concrete is not None:
            return np.float64(self.concrete[name])
        v = self.vars.get(name)
        if v is None:
            v = self.vars[name] = z3.Real(name)
            self.kinds[name] = "real"
            if lo is not None:
                self.assumptions.append(v >= lo)
            if strict_lo is not None:
                self.assumptions.append(v > strict_lo)
            if hi is not None:
                self.assumptions.append(v <= hi)
        return Q(S.Lin.var(name, self.vars[name]))

    def pyreal(self, name, lo=None):
        """a symbolic number with Python-scalar semantics (x / 0 raises ZeroDivisionError)"""
        q = self.real(name, lo=lo)
        if self.concrete is not None:
            return float(q)
        return S.PyReal.of(q)

    def intcount(self, name, lo=0):
        """integer-valued real input (head counts)"""
        if self.concrete is not None:
            return np.float64(self.concrete[name])
        v = self.vars.get(name)
        if v is None:
            i = z3.Int(name)
            v = self.vars[name] = i
            self.kinds[name] = "int"
            if lo is not None:
                self.assumptions.append(i >= lo)
        return Q(S.Lin.var(name, z3.ToReal(self.vars[name])))

    def int(self, name, lo=None, hi=None, domain=None):
        """symbolic integer over Z (domain: identifiers it may be compared with, for class-forking hashes)"""
        if self.concrete is not None:
            return int(self.concrete[name])
        v = self.vars.get(name)
        if v is None:
            v = self.vars[name] = z3.Int(name)
            self.kinds[name] = "int"
            if lo is not None:
                self.assumptions.append(v >= lo)
            if hi is not None:
                self.assumptions.append(v <= hi)
        return S.SymInt(v, name, domain)

    def pick_int(self, z):
        if self.guide is not None:
            return int(self.guide(z))
        s = self._get_solver()
        # deterministic choice (re-executed prefixes must meet the same conditions): first feasible of 0, 1, -1, 2, -2, ...
        for k in range(0, 65):
            for c in ((k,) if k == 0 else (k, -k)):
                if s.check(z == c) == z3.sat:
                    return c
        if s.check() != z3.sat:
            raise Infeasible()
        return s.model().eval(z, model_completion=True).as_long()

    def assume(self, cond, note=None):
        if self.concrete is not None:
            return
        if isinstance(cond, SymBool):
            cond = cond.e
        if isb(cond):
            if not cond:
                raise Unsupported("assumption is statically false")
            return
        if not any(cond.eq(a) for a in self.assumptions):
            self.assumptions.append(cond)
            if note:
                self.assumption_notes.append(note)

    @property
    def symbolic(self):
        return self.concrete is None

    def floor_of(self, q):
        """integer part of the finite rational value q >= 0 as a fresh Int unknown (one per distinct term)"""
        t = S.zr(q.n)
        key = t.sexpr()
        ent = self._floors.get(key)
        if ent is None:
            name = "fl!%d" % len(self._floors)
            i = z3.Int(name)
            self.vars[name] = i
            self.kinds[name] = "int"
            ent = self._floors[key] = (name, i)
            r = z3.ToReal(i)
            self.assumptions.append(z3.And(r <= t, t < r + 1))
            self.assumption_notes.append("int64 cast of a non-negative value: its integer part")
        name, i = ent
        return Q(S.Lin.var(name, z3.ToReal(i)))

    def round_of(self, q, ndigits):
        """nearest multiple of 10^-ndigits of the finite linear value q (fresh Int unknown k, |q * 10^n - k| <= 1/2)"""
        t = S.zr(q.n)
        key = "round%d|%s" % (ndigits, t.sexpr())
        ent = self._floors.get(key)
        if ent is None:
            name = "rd!%d" % len(self._floors)
            i = z3.Int(name)
            self.vars[name] = i
            self.kinds[name] = "int"
            ent = self._floors[key] = (name, i)
            scale = z3.RealVal(10 ** ndigits) if ndigits >= 0 else z3.RealVal("1/%d" % (10 ** -ndigits))
            r = z3.ToReal(i)
            self.assumptions.append(z3.And(2 * scale * t - 1 <= 2 * r, 2 * r <= 2 * scale * t + 1))
            self.assumption_notes.append("round(x, %d): nearest multiple of 10^-%d" % (ndigits, ndigits))
        name, i = ent
        from fractions import Fraction
        return Q(S.Lin.var(name, z3.ToReal(i))) * Q.lift(Fraction(1, 10 ** ndigits) if ndigits >= 0 else Fraction(10 ** -ndigits))

    def int_names(self):
        return {nm for nm, k in self.kinds.items() if k == "int"}

    # ---- path state -------------------------------------------------------------
    def _reset_path(self):
        self.pc = []            # z3 BoolRefs (decisions taken)
        self.decisions = []     # (bool, implied) per solver-decided branch, in call order
        self._known = {}        # ast id -> bool
        self._keep = []
        self._solver = None
        self._static_cache = {}
        self.assumptions_uf = []    # contract axioms of the uninterpreted applications met on this path
        from . import inject as _inj
        _inj.UF.reset()
        for nm in [n for n in self.vars if n.startswith("uf!")]:
            del self.vars[nm]
            del self.kinds[nm]

    def _get_solver(self):
        if self._solver is None:
            s = z3.Solver()
            s.set("timeout", self.FEAS_TIMEOUT_MS)
            for k, v in self.feas_opts.items():
                s.set(k, v)
            for a in self.assumptions:
                s.add(a)
            for c in self.pc:
                s.add(c)
            for a in self.assumptions_uf:
                s.add(a)
            self._nassumed = len(self.assumptions)
            self._solver = s
        elif self._nassumed < len(self.assumptions):
            for a in self.assumptions[self._nassumed:]:
                self._solver.add(a)
            self._nassumed = len(self.assumptions)
        return self._solver

    def _eval_guide(self, e):
        return eval_bool(e, self.guide)

    def branch(self, cond):
        """decide a symbolic condition on the current path (fork point)"""
        cond = z3.simplify(cond)
        if z3.is_true(cond):
            return True
        if z3.is_false(cond):
            return False
        key = cond.get_id()
        if key in self._known:
            return self._known[key]
        if z3.is_not(cond):
            k2 = cond.arg(0).get_id()
            if k2 in self._known:
                return not self._known[k2]
        if self.guide is not None:
            d = self._eval_guide(cond)
            self._take(cond, d)
            return d
        i = len(self.decisions)
        if i < len(self._prefix):
            # re-execution of a recorded prefix: EVERY solver-decided branch (forks and one-sided ones alike) has an entry, so
            # the i-th branch call of this run is the i-th of the run that recorded it
            d, implied = self._prefix[i]
            self._take(cond, d, implied=implied)
            return d
        s = self._get_solver()
        t0 = time.time()
        rt = s.check(cond)
        rf = s.check(z3.Not(cond))
        self.stats.feas_queries += 2
        self.stats.feas_time += time.time() - t0
        ft = rt != z3.unsat
        ff = rf != z3.unsat
        if rt == z3.unknown or rf == z3.unknown:
            self.stats.unknown_feas += 1
        if not ft and not ff:
            if os.environ.get("SYMX_TRACE_FORKS"):
                import traceback
                fr = [f for f in traceback.extract_stack() if "/symx/" not in f.filename][-3:]
                sys.stderr.write("INFEASIBLE %s\n" % " <- ".join("%s:%d:%s" % (f.filename.split("/")[-1], f.lineno, f.name) for f in reversed(fr)))
            raise Infeasible()
        if ft and ff:
            self.stats.forks += 1
            if os.environ.get("SYMX_TRACE_FORKS"):          # development aid: where do the forks come from?
                import traceback
                fr = [f for f in traceback.extract_stack() if "/symx/" not in f.filename][-3:]
                sys.stderr.write("FORK %s\n" % " <- ".join("%s:%d:%s" % (f.filename.split("/")[-1], f.lineno, f.name) for f in reversed(fr)))
            self._alternatives.append(list(self.decisions) + [(False, False)])
            d = True
        else:
            d = ft
            # a one-sided decision is implied by the path: record but do not count as a fork
        self._take(cond, d, implied=not (ft and ff))
        return d

    def _take(self, cond, d, implied=False):
        self._known[cond.get_id()] = d
        self._keep.append(cond)   # AST ids are only unique among live ASTs: keep cached keys alive
        self.decisions.append((d, implied))
        # a one-sided decision is entailed by the path so far; it is kept in the path condition as a lemma (the VCs and later
        # feasibility queries get for free what the solver already proved once)
        c = cond if d else z3.Not(cond)
        self.pc.append(c)
        if self._solver is not None:
            self._solver.add(c)

    def decide_static(self, flag):
        """True/False if `flag` is decided by assumptions & PC, else None (cheap, cached)"""
        if self.guide is not None:
            return None
        key = flag.get_id()
        if key in self._static_cache:
            return self._static_cache[key]
        f = z3.simplify(flag)
        r = None
        if z3.is_true(f):
            r = True
        elif z3.is_false(f):
            r = False
        else:
            s = self._get_solver()
            s.set("timeout", self.STATIC_TIMEOUT_MS)
            self.stats.static_queries += 1
            if s.check(f) == z3.unsat:
                r = False
            elif s.check(z3.Not(f)) == z3.unsat:
                r = True
            s.set("timeout", self.FEAS_TIMEOUT_MS)
        self._static_cache[key] = r
        self._keep.append(flag)
        return r

    # ---- exploration ------------------------------------------------------------
    def explore(self, fn, max_paths=256):
        """run fn() once per feasible path; yields (path_index, result)"""
        S.HOOKS.branch = self.branch
        S.HOOKS.decide_static = self.decide_static
        S.HOOKS.pick_int = self.pick_int
        S.HOOKS.floor = self.floor_of
        S.HOOKS.int_kinds = self.int_names
        S.HOOKS.round_to = self.round_of
        stack = [[]]
        n = 0
        while stack:
            if n >= max_paths:
                raise PathBudgetExceeded("%s: more than %d paths" % (self.name, max_paths))
            self._prefix = stack.pop()
            self._alternatives = []
            self._reset_path()
            try:
                res = fn()
            except Infeasible:
                continue
            finally:
                stack.extend(reversed(self._alternatives))
            n += 1
            self.stats.paths += 1
            yield n - 1, res

    def run_guided(self, fn, model):
        """single concolic run: every fork follows `model`"""
        S.HOOKS.branch = self.branch
        S.HOOKS.decide_static = self.decide_static
        S.HOOKS.pick_int = self.pick_int
        S.HOOKS.floor = self.floor_of
        S.HOOKS.int_kinds = self.int_names
        S.HOOKS.round_to = self.round_of
        self.guide = model
        self._prefix = []
        self._alternatives = []
        self._reset_path()
        try:
            return fn()
        finally:
            self.guide = None

    def run_concrete(self, fn, model):
        """run fn with plain floats (engine inactive)"""
        self.concrete = model
        try:
            return fn()
        finally:
            self.concrete = None

    # ---- models -------------------------------------------------------------------
    def path_model(self, extra=(), prefer_dyadic=True, timeout_ms=10000):
        """a model of assumptions & PC (& extra) as {name: Fraction}, or None"""
        s = z3.Solver()
        s.set("timeout", timeout_ms)
        for k, v in self.feas_opts.items():
            s.set(k, v)
        self.last_path_status = "unknown"
        for a in self.assumptions:
            s.add(a)
        for c in self.pc:
            s.add(c)
        for a in self.assumptions_uf:
            s.add(a)
        for c in extra:
            s.add(bz(c))
        if prefer_dyadic:
            # 1st choice: an "interior" dyadic witness (all non-negative inputs >= 1/8 and pairwise different sizes)
            s.push()
            k = 0
            for nm, v in self.vars.items():
                if self.kinds[nm] == "real" and not nm.startswith("uf!"):
                    kk = z3.Int("dy!" + nm)
                    s.add(v * 8 == z3.ToReal(kk))
                    s.add(z3.Or(v >= z3.RealVal("1/8"), v <= z3.RealVal("-1/8")))
                    k += 1
            if s.check() == z3.sat:
                return self._model_dict(s.model())
            s.pop()
            s.push()
            # prefer multiples of 1/8 so that floats represent the witness exactly
            ks = []
            for nm, v in self.vars.items():
                if self.kinds[nm] == "real":
                    k = z3.Int("dy!" + nm)
                    ks.append(k)
                    s.add(v * 8 == z3.ToReal(k))
            if s.check() == z3.sat:
                return self._model_dict(s.model())
            s.pop()
        r = s.check()
        if r != z3.sat:
            self.last_path_status = "unsat" if r == z3.unsat else "unknown"
            return None
        return self._model_dict(s.model())

    def _model_dict(self, m):
        out = {}
        for nm, v in self.vars.items():
            val = m.eval(v, model_completion=True)
            out[nm] = frac_of(val)
        return out

    def evaluator(self, model):
        return Evaluator(self, model)


class Evaluator:
    """evaluate z3 terms under a {name: Fraction} model (a z3 model object built by hand)"""

    def __init__(self, eng, model):
        self.ctx = z3.main_ctx()
        self.m = z3.ModelRef(z3.Z3_mk_model(self.ctx.ref()), self.ctx)
        for nm, v in eng.vars.items():
            if nm.startswith("uf!"):
                continue
            val = model[nm]
            if eng.kinds[nm] == "int":
                zv = z3.IntVal(int(val))
            elif eng.kinds[nm] == "real":
                zv = z3.RealVal(str(Fraction(val)))
            else:
                zv = z3.BoolVal(bool(val))
            z3.Z3_add_const_interp(self.ctx.ref(), self.m.model, v.decl().ast, zv.ast)
        self._nres = 0
        self._busy = False
        self.cache = {}
        self._keep = []

    def _resolve_ufs(self):
        """uninterpreted cdf applications get their true scipy value under the model"""
        from . import inject as _inj
        if self._nres >= len(_inj.UF.apps) or self._busy:
            return
        import scipy.stats as st
        while self._nres < len(_inj.UF.apps):
            fname, args, res = _inj.UF.apps[self._nres]
            self._nres += 1
            self._busy = True
            try:
                vals = [a.evaluate(self) for a in args]
            finally:
                self._busy = False
            if any(v != v for v in vals):
                y = 0.5
            elif fname == "norm":
                y = float(st.norm.cdf(vals[0]))
            else:
                y = float(st.t.cdf(vals[0], *vals[1:]))
            if y != y:
                y = 0.5
            zv = z3.RealVal(str(Fraction(y)))
            z3.Z3_add_const_interp(self.ctx.ref(), self.m.model, res.n.decl().ast, zv.ast)

    def __call__(self, term):
        self._resolve_ufs()
        k = term.get_id()
        if k in self.cache:
            return self.cache[k]
        t = self.m.eval(term, model_completion=True)
        if z3.is_true(t):
            r = True
        elif z3.is_false(t):
            r = False
        else:
            r = frac_of(t)
        self.cache[k] = r
        self._keep.append(term)
        return r

    def value(self, x):
        """python float / bool / nested list for a symbolic output"""
        if isinstance(x, Q):
            return x.evaluate(self)
        if isinstance(x, SymBool):
            return bool(self(x.e))
        if isinstance(x, np.ndarray) and x.dtype == object:
            out = np.empty(x.shape, dtype=object)
            b = x.view(np.ndarray)
            for idx in np.ndindex(b.shape):
                out[idx] = self.value(b[idx])
            if any(e is None for e in out.flat):
                return out
            try:
                return out.astype(float)
            except (TypeError, ValueError):
                return out
        if isinstance(x, (list, tuple)):
            return type(x)(self.value(e) for e in x)
        return x


def eval_bool(e, model_eval):
    r = model_eval(e)
    if not isinstance(r, bool):
        raise Unsupported("guide could not decide %s" % e)
    return r


# ------------------------------------------------------------------------------------
# VC discharge
# ------------------------------------------------------------------------------------

def _child_solve(assertions, timeout_s, tactic, varlist):
    """fork a child that runs z3 on the assertions; hard-kill on timeout.
    returns ('unsat'|'sat'|'unknown', model-or-None)"""
    r, w = os.pipe()
    pid = os.fork()
    if pid == 0:
        try:
            os.close(r)
            if tactic:
                s = z3.Tactic(tactic).solver()
            else:
                s = z3.Solver()
            s.set("timeout", int(timeout_s * 1000))
            for a in assertions:
                s.add(a)
            res = s.check()
            out = (str(res), None)
            if res == z3.sat:
                m = s.model()
                md = {}
                for nm, v in varlist:
                    val = m.eval(v, model_completion=True)
                    fr = frac_of(val)
                    md[nm] = (fr.numerator, fr.denominator)
                out = ("sat", md)
            data = pickle.dumps(out)
            os.write(w, struct.pack("<I", len(data)) + data)
        except BaseException as e:  # noqa
            try:
                data = pickle.dumps(("unknown", "child error: %r" % (e,)))
                os.write(w, struct.pack("<I", len(data)) + data)
            except BaseException:
                pass
        finally:
            os._exit(0)
    os.close(w)
    deadline = time.time() + timeout_s + 2
    buf = b""
    import select
    try:
        while True:
            left = deadline - time.time()
            if left <= 0:
                os.kill(pid, signal.SIGKILL)
                return "unknown", "timeout"
            rl, _, _ = select.select([r], [], [], left)
            if not rl:
                continue
            chunk = os.read(r, 1 << 16)
            if not chunk:
                break
            buf += chunk
            if len(buf) >= 4:
                (ln,) = struct.unpack("<I", buf[:4])
                if len(buf) >= 4 + ln:
                    break
    finally:
        os.close(r)
        try:
            os.kill(pid, signal.SIGKILL)
        except OSError:
            pass
        try:
            os.waitpid(pid, 0)
        except OSError:
            pass
    if len(buf) < 4:
        return "unknown", "no answer"
    res, md = pickle.loads(buf[4:])
    if res == "sat":
        md = {k: Fraction(a, b) for k, (a, b) in md.items()}
    return res, md


class VCResult:
    __slots__ = ("verdict", "stage", "model", "time")

    def __init__(self, verdict, stage, model=None, t=0.0):
        self.verdict = verdict  # 'valid' | 'cex' | 'unknown'
        self.stage = stage
        self.model = model
        self.time = t


def _s0(goal):
    """cheap normalisation: does the goal simplify to true?"""
    if isb(goal):
        return bool(goal)
    g = z3.simplify(goal, sort_sums=True, arith_lhs=False)
    if z3.is_true(g):
        return True
    return None


_EQS_TACTIC = z3.Then(z3.Tactic("simplify"), z3.Tactic("solve-eqs"), z3.With(z3.Tactic("simplify"), sort_sums=True))


def prove(eng, goal, use_pc=True, timeouts=(2, 20), label="", strong=None):
    """decide  assumptions & PC => goal.  goal: bool | z3 BoolRef."""
    t0 = time.time()
    eng.stats.vcs += 1
    if isb(goal):
        if goal:
            eng.stats.vc_s0 += 1
            return VCResult("valid", "S0", None, 0.0)
    else:
        if _s0(goal):
            eng.stats.vc_s0 += 1
            return VCResult("valid", "S0", None, time.time() - t0)
    gid = goal.get_id()
    if gid in eng._valid_nopc:
        eng.stats.vc_cached += 1
        return VCResult("valid", "cached", None, 0.0)
    neg = z3.Not(bz(goal))
    pc = list(eng.pc)
    from . import inject as _inj
    base = list(eng.assumptions) + _inj.uf_axioms([bz(goal)] + pc)
    varlist = list(eng.vars.items())
    # S0-eqs: equalities of the path condition (e.g. "weighted == unweighted") substituted, then normalised
    if pc:
        try:
            g = z3.Goal()
            for c in pc:
                g.add(c)
            g.add(neg)
            sub = _EQS_TACTIC(g)
            if len(sub) == 1 and sub[0].inconsistent():
                eng.stats.vc_s0 += 1
                eng.stats.vc_time += time.time() - t0
                return VCResult("valid", "S0-eqs", None, time.time() - t0)
        except z3.Z3Exception:
            pass
    # S1-cw: a component-wise sufficient condition (numerators, denominators, flags equal): linear arithmetic
    if strong is not None and not isb(strong):
        s = z3.Solver()
        s.set("timeout", 1500)
        for a in base + pc:
            s.add(a)
        s.add(z3.Not(strong))
        if s.check() == z3.unsat:
            eng.stats.vc_solver += 1
            eng.stats.vc_time += time.time() - t0
            return VCResult("valid", "S1-cw", None, time.time() - t0)
    elif strong is not None and isb(strong) and strong:
        eng.stats.vc_s0 += 1
        return VCResult("valid", "S0", None, time.time() - t0)
    # S1: in-process, short timeout, without PC first (stronger statement), then with PC
    attempts = []
    if pc and use_pc:
        attempts = [("S1-nopc", base + [neg]), ("S1", base + pc + [neg])]
    else:
        attempts = [("S1", base + pc + [neg])]
    last_sat = None
    for stage, asserts in attempts:
        s = z3.Solver()
        s.set("timeout", int(timeouts[0] * 1000))
        for a in asserts:
            s.add(a)
        r = s.check()
        if r == z3.unsat:
            eng.stats.vc_solver += 1
            eng.stats.vc_time += time.time() - t0
            if stage == "S1-nopc" or not pc:
                # valid without any path condition: valid on every path of this scenario
                eng._valid_nopc[gid] = goal
            return VCResult("valid", stage, None, time.time() - t0)
        if r == z3.sat and stage != "S1-nopc":
            m = s.model()
            md = {nm: frac_of(m.eval(v, model_completion=True)) for nm, v in varlist}
            eng.stats.vc_time += time.time() - t0
            return VCResult("cex", stage, md, time.time() - t0)
        if r == z3.sat and not pc:
            m = s.model()
            md = {nm: frac_of(m.eval(v, model_completion=True)) for nm, v in varlist}
            eng.stats.vc_time += time.time() - t0
            return VCResult("cex", stage, md, time.time() - t0)
    # S2: child processes with hard kill: default then nlsat
    full = base + pc + [neg]
    for stage, tactic in (("S2-default", None), ("S2-nlsat", "qfnra-nlsat")):
        res, md = _child_solve(full, timeouts[1], tactic, varlist)
        if res == "unsat":
            eng.stats.vc_solver += 1
            eng.stats.vc_time += time.time() - t0
            return VCResult("valid", stage, None, time.time() - t0)
        if res == "sat":
            eng.stats.vc_time += time.time() - t0
            return VCResult("cex", stage, md, time.time() - t0)
    eng.stats.vc_time += time.time() - t0
    return VCResult("unknown", "S2", None, time.time() - t0)
