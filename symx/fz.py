"""Thin, fast constructors for z3 terms (bypass z3py's per-call coercion overhead).
All arithmetic operands must already be Real-sorted ArithRefs, booleans BoolRefs."""
import z3
from z3 import z3core as C

_ctx = z3.main_ctx()
_cref = _ctx.ref()
_Ast2 = (z3.Ast * 2)
ArithRef = z3.ArithRef
BoolRef = z3.BoolRef
ZERO = z3.RealVal(0)


def _arr(xs):
    n = len(xs)
    a = (z3.Ast * n)()
    for i, x in enumerate(xs):
        a[i] = x.ast
    return n, a


def add(a, b):
    return ArithRef(C.Z3_mk_add(_cref, 2, _Ast2(a.ast, b.ast)), _ctx)


def sub(a, b):
    return ArithRef(C.Z3_mk_sub(_cref, 2, _Ast2(a.ast, b.ast)), _ctx)


def mul(a, b):
    return ArithRef(C.Z3_mk_mul(_cref, 2, _Ast2(a.ast, b.ast)), _ctx)


def neg(a):
    return ArithRef(C.Z3_mk_unary_minus(_cref, a.ast), _ctx)


def eq(a, b):
    return BoolRef(C.Z3_mk_eq(_cref, a.ast, b.ast), _ctx)


def lt(a, b):
    return BoolRef(C.Z3_mk_lt(_cref, a.ast, b.ast), _ctx)


def le(a, b):
    return BoolRef(C.Z3_mk_le(_cref, a.ast, b.ast), _ctx)


def gt(a, b):
    return BoolRef(C.Z3_mk_gt(_cref, a.ast, b.ast), _ctx)


def ge(a, b):
    return BoolRef(C.Z3_mk_ge(_cref, a.ast, b.ast), _ctx)


def and_(xs):
    n, a = _arr(xs)
    return BoolRef(C.Z3_mk_and(_cref, n, a), _ctx)


def or_(xs):
    n, a = _arr(xs)
    return BoolRef(C.Z3_mk_or(_cref, n, a), _ctx)


def not_(a):
    return BoolRef(C.Z3_mk_not(_cref, a.ast), _ctx)


def ite_arith(c, a, b):
    return ArithRef(C.Z3_mk_ite(_cref, c.ast, a.ast, b.ast), _ctx)


def ite_bool(c, a, b):
    return BoolRef(C.Z3_mk_ite(_cref, c.ast, a.ast, b.ast), _ctx)


def iff(a, b):
    return BoolRef(C.Z3_mk_iff(_cref, a.ast, b.ast), _ctx)
