"""SymArray: an object-dtype ndarray subclass that keeps every numpy operation symbolic.

Structural numpy (indexing, reshape, broadcast, block, ...) is executed by numpy itself;
element-wise numerics are evaluated over `Q` / `SymBool` scalars.  Anything not modelled
raises `Unsupported` -- the engine never silently realises a symbolic value.
"""
from fractions import Fraction
import operator

import numpy as np

from .scalar import Q, SymBool, Unsupported, isb


def _is_sym_scalar(x):
    return isinstance(x, (Q, SymBool))


def _base(x):
    """plain-ndarray (object where needed) view/convert of a ufunc input"""
    if isinstance(x, SymArray):
        return x.view(np.ndarray)
    if isinstance(x, np.ndarray):
        return x
    if _is_sym_scalar(x):
        a = np.empty((), dtype=object)
        a[()] = x
        return a
    if isinstance(x, (list, tuple)):
        try:
            a = np.asarray(x)
        except Exception:
            a = None
        if a is None or a.dtype == object:
            a = _obj_array(x)
        return a
    return x


def _obj_array(seq):
    """object array from nested sequences containing symbolic scalars"""
    def shape_of(s):
        if isinstance(s, (list, tuple)):
            if len(s) == 0:
                return (0,)
            return (len(s),) + shape_of(s[0])
        if isinstance(s, np.ndarray):
            return s.shape
        return ()

    shp = shape_of(seq)
    out = np.empty(shp, dtype=object)

    def fill(s, idx):
        if len(idx) == len(shp):
            out[idx] = s
            return
        if isinstance(s, np.ndarray):
            out[idx] = s.astype(object) if not isinstance(s, SymArray) else s.view(np.ndarray)
            return
        if len(s) != shp[len(idx)]:
            raise Unsupported("ragged sequence in array construction")
        for i, e in enumerate(s):
            fill(e, idx + (i,))

    if shp == ():
        out[()] = seq
    else:
        fill(seq, ())
    return out


def _wrap(r):
    if isinstance(r, np.ndarray):
        if r.dtype == object:
            if r.size and all(isb(e) for e in r.flat):
                return r.astype(bool)      # statically decided masks stay real boolean arrays
            return r.view(SymArray)
        return r
    return r


def _lq(f):
    def g(a, b):
        return f(Q.lift(a), b)
    return g


def _isnan(a):
    if isinstance(a, SymBool) or isb(a):
        return False
    return Q.lift(a).isnan()


def _sqrt(a):
    return Q.lift(a).sqrt()


def _and(a, b):
    if isinstance(a, SymBool):
        return a & _tb(b)
    if isinstance(b, SymBool):
        return b & _tb(a)
    return bool(_tb(a)) and bool(_tb(b))


def _or(a, b):
    if isinstance(a, SymBool):
        return a | _tb(b)
    if isinstance(b, SymBool):
        return b | _tb(a)
    return bool(_tb(a)) or bool(_tb(b))


def _tb(x):
    """truth value of an element, symbolic where needed"""
    if isinstance(x, SymBool) or isb(x):
        return x
    if isinstance(x, Q):
        return x != 0
    return bool(x)


def _not(a):
    a = _tb(a)
    if isinstance(a, SymBool):
        return ~a
    return not a


def _invert(a):
    if isinstance(a, SymBool):
        return ~a
    if isb(a):
        return not a
    raise Unsupported("bitwise invert of %r" % (a,))


def _fext(a, b, is_max):
    """np.fmax / np.fmin: like maximum / minimum but a NaN operand is ignored"""
    a, b = Q.lift(a), Q.lift(b)
    # no forking here (clamps are applied to whole arrays): if-then-else on the NaN flags
    a0 = Q(a.n, a.d, a.rn, a.rd, False, a.inf, a.sg)
    b0 = Q(b.n, b.d, b.rn, b.rd, False, b.inf, b.sg)
    an = Q.ite(a.nan, b, a0, cheap=True)
    bn = Q.ite(b.nan, a, b0, cheap=True)
    return an.maximum(bn) if is_max else an.minimum(bn)


def _sign(a):
    a = Q.lift(a)
    r = Q.ite((a > 0), Q.lift(1), Q.ite(a < 0, Q.lift(-1), Q.lift(0)))
    r.nan = a.nan
    return r


_BIN = {
    np.add: _lq(operator.add),
    np.subtract: _lq(operator.sub),
    np.multiply: _lq(operator.mul),
    np.true_divide: _lq(operator.truediv),
    np.power: _lq(operator.pow),
    np.less: _lq(operator.lt),
    np.less_equal: _lq(operator.le),
    np.greater: _lq(operator.gt),
    np.greater_equal: _lq(operator.ge),
    np.equal: _lq(operator.eq),
    np.not_equal: _lq(operator.ne),
    np.logical_and: _and,
    np.logical_or: _or,
    np.bitwise_and: _and,
    np.bitwise_or: _or,
    np.minimum: lambda a, b: Q.lift(a).minimum(b),
    np.maximum: lambda a, b: Q.lift(a).maximum(b),
    np.fmax: lambda a, b: _fext(a, b, True),
    np.fmin: lambda a, b: _fext(a, b, False),
}
_UN = {
    np.negative: lambda a: -Q.lift(a),
    np.positive: lambda a: Q.lift(a),
    np.absolute: lambda a: abs(Q.lift(a)),
    np.sqrt: _sqrt,
    np.isnan: _isnan,
    np.isinf: lambda a: Q.lift(a).isinf(),
    np.isfinite: lambda a: SymBool.mk(Q.lift(a).fin),
    np.logical_not: _not,
    np.invert: _invert,
    np.square: lambda a: Q.lift(a) * Q.lift(a),
    np.sign: _sign,
}
_IDENT = {
    np.add: Fraction(0),
    np.multiply: Fraction(1),
    np.logical_and: True,
    np.logical_or: False,
    np.bitwise_and: True,
    np.bitwise_or: False,
}
_PYF = {}


def _pyf(ufunc):
    f = _PYF.get(ufunc)
    if f is None:
        if ufunc in _BIN:
            f = np.frompyfunc(_BIN[ufunc], 2, 1)
        elif ufunc in _UN:
            f = np.frompyfunc(_UN[ufunc], 1, 1)
        else:
            raise Unsupported("ufunc %s on symbolic data" % ufunc.__name__)
        _PYF[ufunc] = f
    return f


def _lift_ident(v):
    return Q.lift(v) if isinstance(v, Fraction) else v


def sym_ufunc(ufunc, method, inputs, kwargs):
    kwargs = dict(kwargs)
    out = kwargs.pop("out", None)
    where = kwargs.pop("where", True)
    if where is not True:
        if method != "__call__" or out is None:
            raise Unsupported("ufunc where= without out= on symbolic data")
        # np.divide(a, b, out=o, where=m): o keeps its value where the mask is false
        (o,) = out if isinstance(out, tuple) else (out,)
        full = sym_ufunc(ufunc, "__call__", inputs, dict(kwargs))
        merged = _WHERE3(_base(where), _base(full), _base(o))
        if isinstance(o, SymArray):
            o.view(np.ndarray)[...] = merged
            return o
        if isinstance(o, np.ndarray) and not has_sym(merged):
            o[...] = merged.astype(o.dtype)
            return o
        return _wrap(np.asarray(merged, dtype=object))
    kwargs.pop("casting", None)
    kwargs.pop("dtype", None)
    f = _pyf(ufunc)
    if method == "__call__":
        if kwargs:
            raise Unsupported("ufunc kwargs %s" % sorted(kwargs))
        ins = [_base(x) for x in inputs]
        r = f(*ins)
        if out is not None:
            (o,) = out if isinstance(out, tuple) else (out,)
            if not isinstance(o, SymArray):
                raise Unsupported("ufunc out= into a non-symbolic array")
            o.view(np.ndarray)[...] = r
            return o
        return _wrap(r)
    if method == "reduce":
        (a,) = inputs
        a = _base(a)
        if not isinstance(a, np.ndarray):
            a = np.asarray(a)
        a = a.astype(object) if a.dtype != object else a
        axis = kwargs.pop("axis", 0)
        keepdims = kwargs.pop("keepdims", False)
        initial = kwargs.pop("initial", None)
        if kwargs:
            raise Unsupported("reduce kwargs %s" % sorted(kwargs))
        if initial is not None and not isinstance(initial, type(np._NoValue)):
            raise Unsupported("reduce initial=")
        if axis is None:
            axes = tuple(range(a.ndim))
        elif isinstance(axis, tuple):
            axes = tuple(ax % a.ndim for ax in axis)
        else:
            axes = (axis % a.ndim,) if a.ndim else ()
        r = a
        for ax in sorted(axes, reverse=True):
            if r.shape[ax] == 0:
                if ufunc not in _IDENT:
                    raise ValueError("zero-size array to reduction operation %s which has no identity" % ufunc.__name__)
                shp = r.shape[:ax] + r.shape[ax + 1:]
                z = np.empty(shp, dtype=object)
                z[...] = _lift_ident(_IDENT[ufunc])
                r = z
            else:
                r = f.reduce(r, axis=ax)
                if not isinstance(r, np.ndarray):
                    z = np.empty((), dtype=object)
                    z[()] = r
                    r = z
        if keepdims:
            shp = tuple(1 if i in axes else s for i, s in enumerate(a.shape))
            r = r.reshape(shp)
        if r.ndim == 0:
            return r[()]
        return _wrap(r)
    if method == "accumulate":
        (a,) = inputs
        a = _base(a)
        a = a.astype(object) if a.dtype != object else a
        axis = kwargs.pop("axis", 0)
        if kwargs:
            raise Unsupported("accumulate kwargs %s" % sorted(kwargs))
        return _wrap(f.accumulate(a, axis=axis))
    raise Unsupported("ufunc method %s" % method)


# ---------------------------------------------------------------------------------
HANDLED = {}


def implements(*funcs):
    def deco(f):
        for fn in funcs:
            HANDLED[fn] = f
        return f
    return deco


def concretize_mask(m):
    """bool ndarray from an array of (symbolic) truth values -- forks per symbolic element"""
    m = _base(m)
    if isinstance(m, np.ndarray) and m.dtype == object:
        out = np.empty(m.shape, dtype=bool)
        for idx in np.ndindex(m.shape):
            out[idx] = bool(_tb(m[idx]))
        return out
    return np.asarray(m)


def _is_symbool_array(x):
    if isinstance(x, SymArray) and x.size:
        e = x.view(np.ndarray).flat[0]
        return isinstance(e, SymBool) or isb(e)
    return False


def _fix_index(idx):
    if isinstance(idx, tuple):
        return tuple(_fix_index(i) for i in idx)
    if isinstance(idx, SymArray):
        if idx.size == 0 or _is_symbool_array(idx):
            return concretize_mask(idx)
        # integer-valued constants
        b = idx.view(np.ndarray)
        return np.array([int(e) for e in b.flat], dtype=int).reshape(b.shape)
    if isinstance(idx, SymBool):
        return bool(idx)
    if isinstance(idx, np.ndarray) and idx.dtype == object:
        return _fix_index(idx.view(SymArray))
    return idx


class SymArray(np.ndarray):
    """dtype=object ndarray of Q / SymBool / plain numbers"""

    def __array_ufunc__(self, ufunc, method, *inputs, **kwargs):
        return sym_ufunc(ufunc, method, inputs, kwargs)

    def __array_function__(self, func, types, args, kwargs):
        h = HANDLED.get(func)
        if h is not None:
            return h(*args, **kwargs)
        if func in STRUCTURAL:
            return super().__array_function__(func, types, args, kwargs)
        raise Unsupported("numpy function %s on symbolic data" % getattr(func, "__name__", func))

    def __getitem__(self, idx):
        r = super().__getitem__(_fix_index(idx))
        return r

    def __setitem__(self, idx, val):
        if isinstance(val, SymArray):
            val = val.view(np.ndarray)
        super().__setitem__(_fix_index(idx), val)

    def astype(self, dtype, *a, **k):
        dt = np.dtype(dtype)
        if dt == object or dt.kind == "f":
            return self.copy()
        b = self.view(np.ndarray)
        if dt.kind in "iu":
            if all(Q.lift(x).is_const for x in b.reshape(-1)):
                out = np.empty(b.shape, dtype=dt)
                for idx in np.ndindex(b.shape):
                    out[idx] = int(Q.lift(b[idx]).const_value())
                return out
            # symbolic integers stay symbolic (an object array of integer-valued terms)
            out = np.empty(b.shape, dtype=object)
            for idx in np.ndindex(b.shape):
                out[idx] = Q.lift(b[idx]).to_int64()
            return out.view(SymArray)
        if dt.kind == "b":
            return concretize_mask(self)
        raise Unsupported("astype(%s) on symbolic data" % dt)

    def __bool__(self):
        if self.size != 1:
            raise ValueError("The truth value of an array with more than one element is ambiguous.")
        return bool(_tb(self.view(np.ndarray).flat[0]))

    def __float__(self):
        if self.size != 1:
            raise TypeError("only size-1 arrays can be converted to Python scalars")
        return float(self.view(np.ndarray).flat[0])

    def tolist(self):
        return self.view(np.ndarray).tolist()

    # numpy's ndarray methods route through ufuncs / functions that we intercept
    def sum(self, axis=None, dtype=None, out=None, keepdims=False, **kw):
        return sym_ufunc(np.add, "reduce", (self,), dict(axis=axis, keepdims=keepdims))

    def prod(self, axis=None, dtype=None, out=None, keepdims=False, **kw):
        return sym_ufunc(np.multiply, "reduce", (self,), dict(axis=axis, keepdims=keepdims))

    def all(self, axis=None, out=None, keepdims=False, **kw):
        return sym_ufunc(np.logical_and, "reduce", (self,), dict(axis=axis, keepdims=keepdims))

    def any(self, axis=None, out=None, keepdims=False, **kw):
        return sym_ufunc(np.logical_or, "reduce", (self,), dict(axis=axis, keepdims=keepdims))

    def min(self, axis=None, out=None, keepdims=False, **kw):
        return sym_ufunc(np.minimum, "reduce", (self,), dict(axis=axis, keepdims=keepdims))

    def max(self, axis=None, out=None, keepdims=False, **kw):
        return sym_ufunc(np.maximum, "reduce", (self,), dict(axis=axis, keepdims=keepdims))

    def cumsum(self, axis=None, dtype=None, out=None):
        a = self if axis is not None else self.ravel()
        return sym_ufunc(np.add, "accumulate", (a,), dict(axis=axis or 0))

    def argsort(self, axis=-1, kind=None, order=None, **kw):
        return HANDLED[np.argsort](self, axis=axis)

    def argmax(self, axis=None, out=None, **kw):
        return HANDLED[np.argmax](self, axis=axis)

    def mean(self, axis=None, dtype=None, out=None, keepdims=False, **kw):
        s = self.sum(axis=axis, keepdims=keepdims)
        n = self.size if axis is None else np.prod([self.shape[a] for a in (axis if isinstance(axis, tuple) else (axis,))])
        return s / int(n)


def as_sym(x):
    """SymArray from anything array-like (no copy for SymArray)"""
    if isinstance(x, SymArray):
        return x
    if isinstance(x, np.ndarray):
        if x.dtype == object:
            return x.view(SymArray)
        return x.astype(object).view(SymArray)
    if _is_sym_scalar(x):
        return _base(x).view(SymArray)
    a = _base(x)
    if isinstance(a, np.ndarray):
        return as_sym(a)
    a = np.asarray(a)
    return as_sym(a)


def has_sym(x, depth=0):
    """does a (nested) payload contain symbolic scalars?"""
    if _is_sym_scalar(x):
        return True
    if isinstance(x, SymArray):
        return True
    if isinstance(x, np.ndarray):
        if x.dtype == object:
            return x.size == 0 or any(_is_sym_scalar(e) for e in x.flat)
        return False
    if isinstance(x, (list, tuple)) and depth < 6:
        return any(has_sym(e, depth + 1) for e in x)
    return False


# functions that never look at element values: numpy's own implementation is used
STRUCTURAL = {
    np.concatenate, np.hstack, np.vstack, np.stack, np.block, np.broadcast_to, np.repeat,
    np.tile, np.take, np.reshape, np.transpose, np.ravel, np.squeeze, np.expand_dims,
    np.atleast_1d, np.atleast_2d, np.swapaxes, np.moveaxis, np.ix_, np.copy, np.shape,
    np.ndim, np.size, np.convolve, np.correlate, np.flip, np.roll,
    np.insert, np.delete, np.append, np.array_split, np.split, np.diagonal, np.broadcast_arrays,
    np.empty_like, np.full_like, np.column_stack, np.dstack, np.compress, np.may_share_memory,
    np.shares_memory, np.result_type, np.can_cast, np.iterable, np.putmask, np.copyto,
}


@implements(np.sum)
def _sum(a, axis=None, dtype=None, out=None, keepdims=False, **kw):
    return as_sym(a).sum(axis=axis, keepdims=keepdims)


@implements(np.prod)
def _prod(a, axis=None, dtype=None, out=None, keepdims=False, **kw):
    return as_sym(a).prod(axis=axis, keepdims=keepdims)


@implements(np.all)
def _all(a, axis=None, out=None, keepdims=False, **kw):
    return as_sym(a).all(axis=axis, keepdims=keepdims)


@implements(np.any)
def _any(a, axis=None, out=None, keepdims=False, **kw):
    return as_sym(a).any(axis=axis, keepdims=keepdims)


@implements(np.min, np.amin)
def _min(a, axis=None, out=None, keepdims=False, **kw):
    return as_sym(a).min(axis=axis, keepdims=keepdims)


@implements(np.max, np.amax)
def _max(a, axis=None, out=None, keepdims=False, **kw):
    return as_sym(a).max(axis=axis, keepdims=keepdims)


@implements(np.cumsum)
def _cumsum(a, axis=None, dtype=None, out=None):
    return as_sym(a).cumsum(axis=axis)


@implements(np.mean)
def _mean(a, axis=None, dtype=None, out=None, keepdims=False, **kw):
    return as_sym(a).mean(axis=axis, keepdims=keepdims)


def _nan_to(x, repl):
    if isinstance(x, SymBool) or isb(x):
        return x
    return Q.lift(x).nan_to(repl)


_NAN0 = np.frompyfunc(lambda x: _nan_to(x, 0), 1, 1)


@implements(np.nansum)
def _nansum(a, axis=None, dtype=None, out=None, keepdims=False, **kw):
    a = as_sym(a)
    z = _wrap(_NAN0(a.view(np.ndarray)))
    if not isinstance(z, np.ndarray):
        return z
    return as_sym(z).sum(axis=axis, keepdims=keepdims)


@implements(np.nan_to_num)
def _nan_to_num(x, copy=True, nan=0.0, posinf=None, neginf=None):
    a = as_sym(x)
    r = _NAN0(a.view(np.ndarray)) if nan == 0.0 else np.frompyfunc(lambda e: _nan_to(e, nan), 1, 1)(a.view(np.ndarray))
    # +-inf -> large finite numbers is not modelled; flag through an impossible-to-miss error if it could matter
    if not copy and isinstance(x, np.ndarray) and x.dtype == object:
        # numpy's copy=False writes the result into the argument itself: model the side effect on the caller's array
        x.view(np.ndarray)[...] = r
        return x
    return _wrap(r)


@implements(np.isnan)
def _isnan_f(x, *a, **k):
    return sym_ufunc(np.isnan, "__call__", (x,), {})


def _where3(c, a, b):
    c = _tb(c)
    if isb(c):
        return a if c else b
    if isinstance(a, SymBool) or isinstance(b, SymBool) or (isb(a) and isb(b)):
        ca, cb = _tb(a), _tb(b)
        return (c & ca) | (~c & cb)
    return Q.ite(c, a, b)


_WHERE3 = np.frompyfunc(_where3, 3, 1)


@implements(np.where)
def _where(cond, *args):
    if not args:
        return np.where(concretize_mask(cond))
    a, b = args
    return _wrap(_WHERE3(_base(cond), _base(a), _base(b)))


@implements(np.apply_along_axis)
def _apply_along_axis(func1d, axis, arr, *args, **kwargs):
    """numpy's version sizes its output buffer by the dtype of the FIRST result (a float NaN would make every later
    symbolic result unstorable): collect all results first"""
    arr = as_sym(arr)
    nd = arr.ndim
    axis = axis % nd
    moved = np.moveaxis(arr.view(np.ndarray), axis, -1)
    outer = moved.shape[:-1]
    results = []
    for ind in np.ndindex(outer):
        results.append(func1d(moved[ind].view(SymArray), *args, **kwargs))
    if not results:
        raise ValueError("Cannot apply_along_axis when any iteration dimensions are 0")
    r0 = results[0]
    rshape = tuple(getattr(r0, "shape", ()))
    out = np.empty(outer + rshape, dtype=object)
    for ind, r in zip(np.ndindex(outer), results):
        if rshape:
            out[ind] = np.asarray(r, dtype=object) if not isinstance(r, np.ndarray) else r.view(np.ndarray)
        else:
            out[ind] = r if not isinstance(r, np.ndarray) else r[()]
    # result dims go where `axis` was
    if rshape:
        src = list(range(len(outer), len(outer) + len(rshape)))
        dst = list(range(axis, axis + len(rshape)))
        out = np.moveaxis(out, src, dst)
    return _wrap(out)


@implements(np.argwhere)
def _argwhere(a):
    return np.argwhere(concretize_mask(a))


@implements(np.nonzero)
def _nonzero(a):
    return np.nonzero(concretize_mask(a))


@implements(np.count_nonzero)
def _count_nonzero(a, axis=None, **kw):
    return np.count_nonzero(concretize_mask(a), axis=axis)


@implements(np.argmax)
def _argmax(a, axis=None, out=None, **kw):
    a = as_sym(a)
    if axis is not None and a.ndim != 1:
        raise Unsupported("argmax with axis on symbolic data")
    flat = a.view(np.ndarray).ravel()
    if flat.size == 0:
        raise ValueError("attempt to get argmax of an empty sequence")
    if all(isinstance(e, SymBool) or isb(e) for e in flat):
        # first True (forks), else 0
        for i, e in enumerate(flat):
            if bool(e):
                return i
        return 0
    best = 0
    for i in range(1, flat.size):
        # numpy: first occurrence of the maximum; NaN wins
        bi, bb = Q.lift(flat[i]), Q.lift(flat[best])
        if bool(bb.isnan()):
            break
        if bool(bi.isnan()) or bool(bi > bb):
            best = i
    return best


@implements(np.searchsorted)
def _searchsorted(a, v, side="left", sorter=None):
    """index of the first element >= v (side='left') or > v (side='right') of a sorted 1-D array; forks per element"""
    if sorter is not None:
        raise Unsupported("searchsorted with sorter on symbolic data")
    arr = as_sym(a).view(np.ndarray)
    if arr.ndim != 1:
        raise Unsupported("searchsorted on a non 1-D symbolic array")

    def one(x):
        x = Q.lift(x)
        for i in range(arr.shape[0]):
            e = Q.lift(arr[i])
            if bool(e >= x) if side == "left" else bool(e > x):
                return i
        return arr.shape[0]
    if isinstance(v, np.ndarray) and v.ndim > 0:
        return np.array([one(x) for x in np.asarray(v, dtype=object).reshape(-1)], dtype=np.intp).reshape(v.shape)
    return one(v)


@implements(np.argsort)
def _argsort(a, axis=-1, kind=None, order=None, **kw):
    a = as_sym(a)
    if a.ndim != 1:
        raise Unsupported("argsort on >1-D symbolic data")
    flat = [Q.lift(e) for e in a.view(np.ndarray)]
    idx = list(range(len(flat)))
    import functools

    def cmp(i, j):
        # NaN last, stable
        ni, nj = bool(flat[i].isnan()), bool(flat[j].isnan())
        if ni or nj:
            return (ni > nj) - (ni < nj)
        if bool(flat[i] < flat[j]):
            return -1
        if bool(flat[j] < flat[i]):
            return 1
        return 0

    idx.sort(key=functools.cmp_to_key(cmp))
    return np.array(idx, dtype=int)


@implements(np.sort)
def _sort(a, axis=-1, kind=None, order=None, **kw):
    a = as_sym(a)
    return a[_argsort(a)]


@implements(np.unique)
def _unique(ar, return_index=False, return_inverse=False, return_counts=False, axis=None, **kw):
    if return_inverse or return_counts or axis is not None:
        raise Unsupported("np.unique options on symbolic data")
    a = as_sym(ar).ravel()
    order = HANDLED[np.argsort](a)
    flat = a.view(np.ndarray)
    keep = []
    for pos in order:
        x = Q.lift(flat[pos])
        if keep:
            y = Q.lift(flat[keep[-1]])
            same = bool(x == y) or (bool(x.isnan()) and bool(y.isnan()))
            if same:
                # numpy keeps the first occurrence (smallest original index) of equal values
                if pos < keep[-1]:
                    keep[-1] = pos
                continue
        keep.append(int(pos))
    vals = a[np.array(keep, dtype=int)] if keep else a[:0]
    if return_index:
        return vals, np.array(keep, dtype=int)
    return vals


@implements(np.clip)
def _clip(a, a_min=None, a_max=None, out=None, **kw):
    a = as_sym(a)

    def one(x):
        x = Q.lift(x)
        if a_min is not None:
            x = x.maximum(a_min) if True else x
        if a_max is not None:
            x = x.minimum(a_max)
        return x
    return _wrap(np.frompyfunc(one, 1, 1)(a.view(np.ndarray)))


@implements(np.outer)
def _outer(a, b, out=None):
    a, b = as_sym(a).ravel(), as_sym(b).ravel()
    return a[:, None] * b[None, :]


def _absq(x):
    x = Q.lift(x)
    return Q.ite(x._lt(Q.lift(0)), -x, x)


def _isclose_elem(a, b, rtol, atol, equal_nan):
    a, b = Q.lift(a), Q.lift(b)
    tol = _absq(b) * rtol + atol
    close = ((a - b) <= tol) & ((b - a) <= tol)
    if equal_nan:
        close = close | (a.isnan() & b.isnan())
    return close


@implements(np.isclose)
def _isclose(a, b, rtol=1e-05, atol=1e-08, equal_nan=False):
    f = np.frompyfunc(lambda x, y: _isclose_elem(x, y, rtol, atol, equal_nan), 2, 1)
    return _wrap(f(_base(a), _base(b)))


@implements(np.allclose)
def _allclose(a, b, rtol=1e-05, atol=1e-08, equal_nan=False):
    r = _isclose(a, b, rtol, atol, equal_nan)
    if isinstance(r, np.ndarray):
        return bool(as_sym(r).all()) if r.dtype == object else bool(r.all())
    return bool(r)


@implements(np.array_equal)
def _array_equal(a, b, **kw):
    a, b = as_sym(a), as_sym(b)
    if a.shape != b.shape:
        return False
    return bool((a == b).all())


@implements(np.setdiff1d)
def _setdiff1d(a, b, assume_unique=False):
    return np.setdiff1d(np.asarray(_fix_index(a) if isinstance(a, SymArray) else a),
                        np.asarray(_fix_index(b) if isinstance(b, SymArray) else b),
                        assume_unique=assume_unique)


@implements(np.linalg.matrix_rank)
def _matrix_rank(A, *a, **k):
    """exact rank (0, 1 or '>= 2') of a symbolic matrix: rank < 2 iff every 2x2 minor vanishes.
    The SVD tolerance of LAPACK is outside the claim."""
    A = as_sym(A)
    if A.ndim != 2:
        raise Unsupported("matrix_rank on non 2-D symbolic data")
    b = A.view(np.ndarray)
    r, c = b.shape
    allzero = True
    for e in b.flat:
        allzero = allzero & (Q.lift(e) == 0)
    if bool(allzero):
        return 0
    rank1 = True
    for i in range(r):
        for j in range(i + 1, r):
            for k_ in range(c):
                for l in range(k_ + 1, c):
                    rank1 = rank1 & ((Q.lift(b[i, k_]) * b[j, l] - Q.lift(b[i, l]) * b[j, k_]) == 0)
    return 1 if bool(rank1) else 2
