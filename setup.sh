#!/bin/sh
# Build the offline overlay venv used by every check: /venv's packages (numpy, scipy, cr.cube from /repo/src) + z3-solver.
set -e
cd "$(dirname "$0")"
if [ ! -x .venv/bin/python ] || ! .venv/bin/python -c "import z3, numpy, scipy, cr.cube" 2>/dev/null; then
  rm -rf .venv
  /venv/bin/python -m venv .venv
  echo "import site; site.addsitedir('/venv/lib/python3.12/site-packages')" > .venv/lib/python3.12/site-packages/_venv_overlay.pth
  PIP_NO_INDEX=1 .venv/bin/pip install -q --no-index --find-links /opt/veriftools/wheels z3-solver
fi
.venv/bin/python -c "import z3, numpy, scipy, cr.cube; print('setup ok', z3.get_version_string())"
