#!/bin/sh
# usage: verify_seed.sh <PROP> <k> <srcdir> <patch> <demo> <meta>
# confirms a seeded defect independently in a fresh scratch worktree, then stores it under /verif/seeded/<PROP>-<k>/
set -u
P=$1; K=$2; SRC=$3; PATCH=$4; DEMO=$5; META=$6
WT=/tmp/seedv/$P-$K
rm -rf "$WT"; git -C /repo worktree prune
git -C /repo worktree add -q --detach "$WT" HEAD || exit 2
cp "$SRC/$DEMO" "$WT/$DEMO"
cd "$WT"
/tmp/seed/wtpy "$WT" "$DEMO" >/tmp/seedv/$P-$K.clean.log 2>&1; CLEAN=$?
git apply "$SRC/$PATCH" || { echo "$P-$K patch does not apply"; git -C /repo worktree remove --force "$WT"; exit 2; }
/tmp/seed/wtpy "$WT" "$DEMO" >/tmp/seedv/$P-$K.patched.log 2>&1; PATCHED=$?
SUITE=$(/tmp/seed/wtpy "$WT" -m pytest -q -p no:cacheprovider 2>&1 | tail -1)
FAILED=$(/tmp/seed/wtpy "$WT" -m pytest -q -p no:cacheprovider 2>&1 | grep "^FAILED" | tr '\n' ' ')
echo "$P-$K clean_exit=$CLEAN patched_exit=$PATCHED suite='$SUITE' failed='$FAILED'"
OK=0
case "$SUITE" in *"1 failed, 2163 passed"*) ;; *) OK=1;; esac
case "$FAILED" in *test_profiles_percentages_add_up_to_100*) ;; *) OK=1;; esac
[ "$CLEAN" = 0 ] && [ "$PATCHED" = 1 ] || OK=1
if [ $OK = 0 ]; then
  D=/verif/seeded/$P-$K; mkdir -p "$D"
  cp "$SRC/$PATCH" "$D/patch.diff"; cp "$SRC/$DEMO" "$D/$DEMO"
  /venv/bin/python - "$SRC/$META" "$D/meta.json" "$P" "$DEMO" "$SUITE" "$CLEAN" "$PATCHED" <<'PY'
import json,sys
src,dst,prop,demo,suite,clean,patched=sys.argv[1:]
try: m=json.load(open(src))
except Exception: m={}
out={"property":prop,"summary":m.get("summary"),"needs":m.get("needs"),"files":m.get("files"),
 "demo":demo,"origin":"independent sub-agent given only the property text and a scratch worktree",
 "confirmed":{"how":"fresh scratch worktree of /repo HEAD: demo on clean tree, git apply patch.diff, demo again, full pytest suite","demo_exit_clean":int(clean),"demo_exit_patched":int(patched),"suite_with_patch":suite,"only_failure":"tests/integration/test_cubepart.py::Test_LegacySlice::test_profiles_percentages_add_up_to_100 (pre-existing, in BASELINE always_fail)"}}
json.dump(out,open(dst,"w"),indent=1)
PY
  echo "$P-$K STORED"
else
  echo "$P-$K REJECTED"
fi
git -C /repo worktree remove --force "$WT"
exit $OK
