"""Regenerate MANIFEST.json from the table below (claimed checks + not_applicable)."""
import json, os
V = os.path.dirname(os.path.dirname(os.path.abspath(__file__)))
props = [json.loads(l) for l in open(os.path.join(V, "properties.jsonl"))]

TECH = "bounded symbolic execution of the real cr.cube source over z3 terms (symx engine), per-cell VCs decided by z3, counterexamples replayed on the unmodified library"
NOTE = ("trusted: CPython, numpy structural ops, z3, the symx scalar semantics (validated on every path by witness replay against the real library and on all repo fixtures by tools/fixdiff.py), "
        "the tabulator symx/tab.py (model of the backend's wire layout) and the short oracles in props/; floats are treated as reals (no rounding); configuration bounds as in evidence.coverage.bounds")

CLAIMED = {
    # id: (design_ref, text)
}
exec(open(os.path.join(V, "tools", "claims.py")).read())

checks = []
for p in props:
    if p["id"] in CLAIMED:
        ref, text = CLAIMED[p["id"]]
        checks.append({
            "property_id": p["id"],
            "quick_cmd": "./check %s --tier quick" % p["id"],
            "thorough_cmd": "./check %s --tier thorough" % p["id"],
            "evidence_file": "evidence/%s.json" % p["id"],
            "replay_cmd_template": "./check %s --replay {path}" % p["id"],
            "engine": "symx",
            "level_claimed": {"category": "model_checking", "text": text, "design_ref": ref},
            "level_note": NOTE,
            "technique": TECH,
        })
na = [{"property_id": p["id"], "reason": NA.get(p["id"], "check not built yet (work in progress, DESIGN.md section 11)")} for p in props if p["id"] not in CLAIMED]
m = {
    "version": 1,
    "setup_cmd": "./setup.sh",
    "hooks": {"guard": "CRUNCH_CUBE_VERIF", "enable": "no source hooks are needed: checks import cr.cube from /repo/src as it is and rebind module globals (np, norm, t) in-process",
              "baseline_off_cmd": "cd /repo && /venv/bin/python -m pytest -ra -q -p no:cacheprovider --timeout=900 --continue-on-collection-errors",
              "source_commits": [], "add_only": True},
    "engines": [{"name": "symx", "path": "symx/", "serves_properties": sorted(CLAIMED), "kind_free_text": "symbolic execution of the real Python/numpy source by operator overloading (object ndarray subclass of z3-backed extended reals), DFS over data-dependent branches by re-execution, z3 for feasibility and verification conditions"}],
    "checks": checks,
    "notes": "exit codes: 0 held, 1 VIOLATION (replayed on the real library), 2 inconclusive/harness error. known_findings.json lists recorded findings and fixed: entries. See DESIGN.md.",
    "not_applicable": na,
}
json.dump(m, open(os.path.join(V, "MANIFEST.json"), "w"), indent=1)
print("claimed", sorted(CLAIMED), "not_applicable", [x["property_id"] for x in na])
