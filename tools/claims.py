# table of claimed properties: id -> (DESIGN section, assurance text); NA: id -> reason
CLAIMED = {
 "C01": ("6/C01", "For every configuration in the stated bounds (dimension type tuples, missing-category positions, weighted or not, carried measures with unavailable cells) the real extraction code is executed symbolically and every cell of counts / unweighted_counts / means / sums / stddev / medians is proved by z3 equal to the respondent-level tabulation (resp. the carried response value) for ALL pattern masses; bounded model checking, not a proof beyond the bounds."),
}
NA = {}
