"""Fixture differential: acceptance test of the symbolic numpy layer (DESIGN 5.4).

Every JSON fixture of the repository is run twice: (a) through the symbolic layer with every number
of the response replaced by a symbolic input, forks following the fixture's own values (concolic),
and the resulting terms evaluated under those values; (b) by the unmodified library on plain numpy.
All public lazyproperties of the first partitions must agree.
"""
import collections
import glob
import json
import math
import multiprocessing as mp
import os
import sys
import time
import traceback
import warnings

sys.path.insert(0, os.path.dirname(os.path.dirname(os.path.abspath(__file__))))
warnings.filterwarnings("ignore")

import numpy as np

from symx import inject
from symx.engine import Engine
from symx.inject import SymList
from symx.scalar import Q, SymBool, Unsupported

from cr.cube.cube import Cube
from cr.cube.util import lazyproperty

FIXDIR = "/repo/tests/fixtures"


def public_props(obj):
    names = []
    for klass in type(obj).__mro__:
        for k, v in vars(klass).items():
            if k.startswith("_"):
                continue
            if isinstance(v, (lazyproperty, property)) and k not in names:
                names.append(k)
    return sorted(names)


def symbolize(resp, eng, model):
    """replace the numbers of result.counts and result.measures.*.data by symbolic inputs"""
    r = resp.get("value", resp)
    res = r["result"]
    cnt = [0]

    def mk(x):
        if isinstance(x, bool) or not isinstance(x, (int, float)):
            return x
        nm = "x%d" % cnt[0]
        cnt[0] += 1
        if isinstance(x, float) and (math.isnan(x) or math.isinf(x)):
            return x
        model.setdefault(nm, x)
        return eng.real(nm)

    def walk(lst):
        return SymList([walk(e) if isinstance(e, list) else mk(e) for e in lst])

    if isinstance(res.get("counts"), list):
        res["counts"] = walk(res["counts"])
    for mname, m in (res.get("measures") or {}).items():
        if isinstance(m, dict) and isinstance(m.get("data"), list):
            m["data"] = walk(m["data"])
    return resp


def read_all(cube, nparts=2):
    out = {}
    try:
        parts = cube.partitions
    except Exception as e:  # library behaviour
        return {"partitions": ("exc", type(e).__name__)}
    for pi, part in enumerate(parts[:nparts]):
        for name in public_props(part):
            key = "%d.%s" % (pi, name)
            try:
                out[key] = ("val", getattr(part, name))
            except Unsupported as e:
                out[key] = ("unsup", str(e)[:80])
            except Exception as e:
                out[key] = ("exc", type(e).__name__ + ":" + str(e)[:60])
    return out


def to_float_tree(v, ev=None):
    if ev is not None:
        v = ev.value(v)
    if isinstance(v, np.ndarray):
        if v.dtype == object:
            try:
                return v.astype(float)
            except Exception:
                return [to_float_tree(e) for e in v.tolist()]
        return v
    if isinstance(v, (list, tuple)):
        return [to_float_tree(e) for e in v]
    return v


def _norm(v):
    if isinstance(v, np.ndarray) and v.dtype == object:
        return _norm(v.tolist())
    if isinstance(v, (list, tuple)):
        return [_norm(e) for e in v]
    return v


def same(a, b):
    a, b = _norm(a), _norm(b)
    if isinstance(a, list) and isinstance(b, list):
        return len(a) == len(b) and all(same(x, y) for x, y in zip(a, b))
    if type(a).__module__.startswith("cr.cube") and type(a) is type(b):
        return True
    if isinstance(a, np.ndarray) or isinstance(b, np.ndarray):
        a, b = np.asarray(a), np.asarray(b)
        if a.shape != b.shape:
            return False
        if a.dtype.kind in "fiub" and b.dtype.kind in "fiub":
            return bool(np.allclose(a.astype(float), b.astype(float), rtol=1e-7, atol=1e-9, equal_nan=True))
        return a.tolist() == b.tolist() or all(same(x, y) for x, y in zip(a.ravel().tolist(), b.ravel().tolist()))
    if isinstance(a, (list, tuple)) and isinstance(b, (list, tuple)):
        return len(a) == len(b) and all(same(x, y) for x, y in zip(a, b))
    if isinstance(a, (float, np.floating)) or isinstance(b, (float, np.floating)):
        try:
            a, b = float(a), float(b)
        except Exception:
            return False
        return (a != a and b != b) or math.isclose(a, b, rel_tol=1e-7, abs_tol=1e-9)
    try:
        return bool(a == b)
    except Exception:
        return repr(a) == repr(b)


def one(path):
    t0 = time.time()
    stats = collections.Counter()
    notes = []
    try:
        raw = json.load(open(path))
    except Exception:
        return path, stats, ["unreadable"], 0
    if not isinstance(raw, dict) or "result" not in raw.get("value", raw):
        return path, stats, ["not a cube response"], 0
    # (b) plain
    try:
        conc = read_all(Cube(json.loads(json.dumps(raw))))
    except Exception as e:
        return path, stats, ["plain run failed: %r" % e], 0
    # (a) symbolic, guided by the fixture's own numbers
    eng = Engine(os.path.basename(path))
    model = {}

    def run():
        resp = symbolize(json.loads(json.dumps(raw)), eng, model)
        return read_all(Cube(resp))

    inject.activate(eng)
    try:
        # a first throw-away symbolisation to learn the model (variable names -> fixture numbers)
        symbolize(json.loads(json.dumps(raw)), eng, model)
        from fractions import Fraction
        fmodel = {k: Fraction(v) for k, v in model.items()}
        ev0 = eng.evaluator(fmodel)
        sym = eng.run_guided(run, ev0)
        ev = eng.evaluator(fmodel)
        for key, (kind, val) in sym.items():
            ckind, cval = conc.get(key, ("missing", None))
            if kind == "unsup":
                stats["unsupported"] += 1
                notes.append("%s unsupported: %s" % (key, val))
                continue
            if kind == "exc":
                if ckind == "exc" and cval.split(":")[0] == val.split(":")[0]:
                    stats["same_exception"] += 1
                else:
                    stats["exception_differs"] += 1
                    notes.append("%s sym raised %s, plain %s" % (key, val, (ckind, str(cval)[:60])))
                continue
            if ckind != "val":
                stats["exception_differs"] += 1
                notes.append("%s plain raised %s, sym did not" % (key, cval))
                continue
            try:
                sv = to_float_tree(val, ev)
            except Unsupported as e:
                stats["unsupported"] += 1
                notes.append("%s eval unsupported: %s" % (key, str(e)[:80]))
                continue
            if same(sv, cval):
                stats["agree"] += 1
            else:
                stats["MISMATCH"] += 1
                notes.append("%s MISMATCH sym=%s plain=%s" % (key, str(sv)[:200], str(cval)[:200]))
    except Exception as e:
        stats["run_failed"] += 1
        notes.append("symbolic run failed: %s" % traceback.format_exc()[-600:])
    finally:
        inject.deactivate()
    return path, stats, notes, time.time() - t0


def main():
    paths = sorted(glob.glob(FIXDIR + "/*.json") + glob.glob(FIXDIR + "/*/*.json"))
    if len(sys.argv) > 1:
        paths = [p for p in paths if any(a in p for a in sys.argv[1:])]
    total = collections.Counter()
    t0 = time.time()
    with mp.Pool(min(16, len(paths))) as pool:
        for path, stats, notes, dt in pool.imap_unordered(one, paths):
            total.update(stats)
            bad = notes
            if bad:
                print("==", os.path.relpath(path, FIXDIR), dict(stats), "%.1fs" % dt)
                for n in bad[:8]:
                    print("    ", n)
    print("TOTAL", dict(total), "fixtures", len(paths), "wall %.0fs" % (time.time() - t0))
    return 1 if total["MISMATCH"] or total["exception_differs"] or total["run_failed"] else 0


if __name__ == "__main__":
    sys.exit(main())
