"""Apply each seeded defect under /verif/seeded to /repo, run the owning check, undo. Prints a table.
usage: seedrun.py [--tier quick|thorough] [ID-k ...]"""
import json, os, subprocess, sys, time
V = "/verif"
tier = "quick"
args = sys.argv[1:]
if args and args[0] == "--tier":
    tier = args[1]; args = args[2:]
seeds = sorted(os.listdir(os.path.join(V, "seeded")))
if args:
    seeds = [s for s in seeds if s in args or s.split("-")[0] in args]
claimed = {c["property_id"] for c in json.load(open(os.path.join(V, "MANIFEST.json")))["checks"]}
rows = []
for sd in seeds:
    prop = sd.split("-")[0]
    if prop not in claimed:
        rows.append((sd, "-", "check not built")); continue
    patch = os.path.join(V, "seeded", sd, "patch.diff")
    assert subprocess.run(["git", "-C", "/repo", "status", "--porcelain", "--untracked-files=no"], capture_output=True, text=True).stdout.strip() == "", "repo dirty"
    r = subprocess.run(["git", "-C", "/repo", "apply", patch], capture_output=True, text=True)
    if r.returncode != 0:
        r = subprocess.run(["patch", "-p1", "-d", "/repo", "--fuzz=3", "-i", patch], capture_output=True, text=True)
        if r.returncode != 0:
            subprocess.run(["git", "-C", "/repo", "checkout", "--", "."]); rows.append((sd, "-", "patch does not apply")); continue
    t0 = time.time()
    try:
        c = subprocess.run([os.path.join(V, "check"), prop, "--tier", tier], capture_output=True, text=True, timeout=3600)
        code = c.returncode
        viol = [l for l in c.stdout.splitlines() if l.startswith("VIOLATION")]
        detail = [l for l in c.stdout.splitlines() if l.startswith("  scenario=")]
        msg = (detail[0].strip()[:160] if detail else (c.stdout.strip().splitlines()[-1][:160] if c.stdout.strip() else c.stderr[-200:]))
    except subprocess.TimeoutExpired:
        code, msg = "timeout", ""
    finally:
        subprocess.run(["git", "-C", "/repo", "checkout", "--", "."])
        subprocess.run(["git", "-C", "/repo", "clean", "-fdq", "--", "src"])
    verdict = {1: "CAUGHT", 0: "missed", 2: "harness-error"}.get(code, str(code))
    rows.append((sd, verdict, "%.0fs %s" % (time.time() - t0, msg)))
    print("%-8s %-14s %s" % rows[-1], flush=True)
json.dump(rows, open("/tmp/seedrun_%s.json" % tier, "w"), indent=1)
