#!/bin/sh
# run every registered check of a tier in sequence; print one line per property
TIER=${1:-quick}
cd "$(dirname "$0")/.."
for i in 01 02 03 04 05 06 07 08 09 10 11 12 13 14 15 16 17 18 19 20; do
  s=$(date +%s)
  ./check C$i --tier $TIER > /tmp/check_C$i.$TIER.log 2>&1
  rc=$?
  e=$(date +%s)
  echo "C$i exit=$rc $((e-s))s $(grep -c '^KNOWN-FINDING' /tmp/check_C$i.$TIER.log) known $(grep -c '^VIOLATION' /tmp/check_C$i.$TIER.log) violations"
done
