import sys; sys.path.insert(0,'/verif'); sys.path.insert(0,'/repo/src')
import z3, time
from symx.engine import Engine, prove, _EQS_TACTIC
from symx import inject
from symx.scalar import Q, eqv, bz
from props import c03
from props.c01 import V
eng=Engine('x'); inject.activate(eng)
n=0
for i,obs in eng.explore(lambda: c03.two_d(eng, rows=V("mr","a",2), cols=V("mr","b",2))):
    o=[o for o in obs if o.label=='table_proportions'][0]
    a=o.impl[0,0]; b=o.oracle[0,0]
    g=eqv(a,b)
    t0=time.time(); r=prove(eng,g); print(i, len(eng.pc), r.verdict, r.stage, round(time.time()-t0,2))
    if r.stage=='S1':
        print('PC', [str(c)[:150] for c in eng.pc])
        print('impl', str(a)[:600]); print('orc', str(b)[:600])
        gl=z3.Goal()
        for c in eng.pc: gl.add(c)
        gl.add(z3.Not(bz(g)))
        sub=_EQS_TACTIC(gl)
        print('SUB', str(sub)[:1500])
        n+=1
        if n>=1: break
