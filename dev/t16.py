import sys, traceback; sys.path.insert(0,'/verif'); sys.path.insert(0,'/repo/src')
from symx.engine import Engine
from symx import inject
from props import c07
eng=Engine('x'); inject.activate(eng)
try:
    for i,obs in eng.explore(lambda: c07.run(eng, anchors=["sym","sym"])):
        print(i, obs[0].impl, obs[0].oracle); 
        if i>2: break
except Exception:
    traceback.print_exc()
