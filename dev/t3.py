import json, sys, time, traceback
sys.path.insert(0, '/verif'); sys.path.insert(0,'/verif/tools')
import fixdiff
from fractions import Fraction
from symx import inject
from symx.engine import Engine
from cr.cube.cube import Cube
raw=json.load(open('/repo/tests/fixtures/cat-x-cat.json'))
eng=Engine('x'); model={}
inject.activate(eng)
fixdiff.symbolize(json.loads(json.dumps(raw)), eng, model)
ev=eng.evaluator({k:Fraction(v) for k,v in model.items()})
def run():
    sl=Cube(fixdiff.symbolize(json.loads(json.dumps(raw)), eng, model)).partitions[0]
    t0=time.time()
    try:
        return sl.pairwise_indices
    except Exception:
        traceback.print_exc()
eng.run_guided(run, ev)
