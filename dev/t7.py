import json, sys, time, traceback
sys.path.insert(0, '/verif'); sys.path.insert(0,'/verif/tools')
import fixdiff, z3
from fractions import Fraction
from symx import inject, engine
from symx.engine import Engine
from cr.cube.cube import Cube
orig=engine.frac_of
def fo(v):
    try: return orig(v)
    except Exception:
        print('BAD VALUE', str(v)[:500]); raise
engine.frac_of=fo
raw=json.load(open('/repo/tests/fixtures/means-cat-x-mr-2.json'))
eng=Engine('x'); model={}
inject.activate(eng)
fixdiff.symbolize(json.loads(json.dumps(raw)), eng, model)
ev=eng.evaluator({k:Fraction(v) for k,v in model.items()})
def run():
    return fixdiff.read_all(Cube(fixdiff.symbolize(json.loads(json.dumps(raw)), eng, model)))
try:
    eng.run_guided(run, ev)
except Exception:
    traceback.print_exc()
