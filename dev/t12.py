import sys, time, faulthandler; sys.path.insert(0,'/verif'); sys.path.insert(0,'/repo/src')
faulthandler.dump_traceback_later(150, exit=True)
from symx.engine import Engine, prove
from symx import inject
from props import c10, reflect as R
eng=Engine('x'); inject.activate(eng)
t0=time.time()
for i,obs in eng.explore(lambda: c10.cat_cat(eng, ins=False)):
    print('path', i, time.time()-t0, len(eng.pc), len(obs), flush=True)
    if i>6: break
