import sys, time, cProfile, pstats; sys.path.insert(0,'/verif'); sys.path.insert(0,'/repo/src')
from symx.engine import Engine, prove
from symx import inject
from props import c04
eng=Engine('x'); inject.activate(eng)
pr=cProfile.Profile(); pr.enable()
for i,obs in eng.explore(lambda: c04.merge_equiv(eng, axis=0)):
    if i>=1: break
pr.disable()
pstats.Stats(pr).sort_stats('cumulative').print_stats(45)
