import sys; sys.path.insert(0,'/verif'); sys.path.insert(0,'/repo/src')
import z3
from symx.engine import Engine, prove
from symx import inject
from symx.scalar import Q, eqv, bz
from props import c03
from props.c01 import V
eng=Engine('x'); inject.activate(eng)
for i,obs in eng.explore(lambda: c03.one_d(eng, rows=V("cat","a",3,(1,)))):
    o=obs[0]
    a=o.impl[0]; b=o.oracle[0]
    print(a); print(b)
    g=eqv(a,b); print('goal', z3.simplify(bz(g)))
    r=prove(eng,g); print(r.verdict,r.stage)
    w=Q.lift(b)+1
    print(w)
    g2=eqv(a,w); print('goal2', z3.simplify(bz(g2)))
    r=prove(eng,g2); print(r.verdict,r.stage, r.model)
    break
s=z3.Solver()
for a_ in eng.assumptions: s.add(a_)
print('assump', s.check())
for c in eng.pc: s.add(c)
print('pc', eng.pc, s.check())
s.add(z3.Not(bz(g2)))
print('neg', s.check())
s2=z3.Solver(); s2.add(z3.Not(bz(g2))); print('neg alone', s2.check())
# evaluate g2 at a sample point
m=s.model() if s.check()==z3.sat else None
vals={str(v):1 for v in eng.vars.values()}
sub=[(v, z3.RealVal(1)) for v in eng.vars.values()]
print('g2 at all ones:', z3.simplify(z3.substitute(bz(g2), *sub)))
print('g at all ones:', z3.simplify(z3.substitute(bz(g), *sub)))
