import sys, time, faulthandler; sys.path.insert(0,'/verif'); sys.path.insert(0,'/repo/src')
faulthandler.dump_traceback_later(280, exit=True)
from symx.engine import Engine, prove
from symx import inject
from props import c04
eng=Engine('x'); inject.activate(eng)
t0=time.time()
for i,obs in eng.explore(lambda: c04.merge_equiv(eng, axis=0)):
    print('path', i, round(time.time()-t0,1), len(eng.pc), len(obs), flush=True)
    if i>60: break
