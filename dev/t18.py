import sys, time, faulthandler; sys.path.insert(0,'/verif'); sys.path.insert(0,'/repo/src')
faulthandler.dump_traceback_later(90, exit=True)
from symx import harness
from props import c11
spec=[s for s in c11.specs('quick') if s['name']=='slice row difference x col difference'][0]
spec['prop']='C11'
r=harness.run_scenario(spec)
print(r.status, r.paths, r.vcs, r.messages[:3], [ (v['obs'], v['impl'], v['oracle']) for v in r.violations])
