import sys; sys.path.insert(0,'/verif'); sys.path.insert(0,'/repo/src')
import random, numpy as np
from symx.engine import Engine
from props import c13
eng=Engine('x')
random.seed(1)
class M(dict):
    def __missing__(self,k): 
        self[k]=random.choice([1,2,3,4,5,6,7])/ (1 if k.startswith('w') else 1); return self[k]
m=M()
obs=eng.run_concrete(lambda: c13.overlaps(eng), m)
for o in obs: print(o.label, np.round(np.array(o.impl,float),4).tolist(), np.round(np.array(o.oracle,float),4).tolist())
