import sys, time, faulthandler; sys.path.insert(0,'/verif'); sys.path.insert(0,'/repo/src')
faulthandler.dump_traceback_later(100, exit=True)
from symx.engine import Engine, prove
from symx import inject
from props import c10, reflect as R
from props.cellworld import CellWorld
from cr.cube.cube import Cube
eng=Engine('x'); inject.activate(eng)
def run():
    w = CellWorld(eng, [("cat","a",2,{"missing_at":(1,)}),("cat","b",3,{"missing_at":(0,)})])
    P = eng.pyreal("P", lo=0)
    A = Cube(w.response(), population=P).partitions[0]
    for p in R.public_props(A):
        t0=time.time(); v=R.read(A,p); dt=time.time()-t0
        if dt>0.3: print(p, round(dt,2), flush=True)
    return 1
t0=time.time()
for i,_ in eng.explore(run):
    print('path', i, time.time()-t0, len(eng.pc), flush=True)
    if i>3: break
