import sys; sys.path.insert(0,'/verif')
import numpy as np, z3
from symx.engine import Engine
from symx import inject
from symx.scalar import Q
from symx.array import as_sym
from fractions import Fraction
eng=Engine('x'); inject.activate(eng)
def run():
    a=eng.real('a',lo=0); b=eng.real('b',lo=0); c=eng.real('c',lo=0)
    arr=inject.PROXY.array([a+b, b, c+a])
    return inject.PROXY.array([inject.PROXY.min(arr), inject.PROXY.max(arr)])
for i,res in eng.explore(run):
    print(res)
    ev=eng.evaluator({'a':Fraction(1,8),'b':Fraction(0),'c':Fraction(1,4)})
    print(ev.value(res))
