import sys, time, faulthandler; sys.path.insert(0,'/verif'); sys.path.insert(0,'/repo/src')
faulthandler.dump_traceback_later(60, exit=True)
from symx.engine import Engine, prove
from symx import inject
from symx.scalar import eqv, eqv_strong
from props import c16
from props.c01 import V
eng=Engine('x'); inject.activate(eng)
t0=time.time()
for i,obs in eng.explore(lambda: c16.two_d(eng, rows=V("mr","a",2), cols=V("mr","b",2))):
    print('path',i,time.time()-t0, len(eng.pc)); 
    o=obs[0]
    for idx in [(0,0),(1,1)]:
        a=o.impl[idx]; b=o.oracle[idx]
        t1=time.time(); r=prove(eng, eqv(a,b), strong=eqv_strong(a,b)); print(idx, r.verdict, r.stage, time.time()-t1)
