import json, sys, time
sys.path.insert(0, '/verif')
import numpy as np, z3
from symx.engine import Engine, prove
from symx import inject
from symx.scalar import Q, eqv
from symx.inject import SymList
from cr.cube.cube import Cube

fx = json.load(open('/repo/tests/fixtures/cat-hs-x-cat-hs.json'))
eng = Engine('t1')
def run():
    resp = json.loads(json.dumps(fx))
    r = resp.get('value', resp)
    n = len(r['result']['counts'])
    cnt = SymList([eng.real('u%d' % i, lo=0) for i in range(n)])
    r['result']['counts'] = cnt
    r['result']['measures']['count']['data'] = SymList([eng.real('m%d' % i, lo=0) for i in range(n)])
    sl = Cube(resp).partitions[0]
    out = {}
    for k in ['counts','row_proportions','column_proportions','table_proportions','zscores','pvals','table_std_err','columns_margin','rows_margin','column_index','row_weighted_bases']:
        out[k] = getattr(sl, k)
    return out
inject.activate(eng)
t0=time.time()
for i,res in eng.explore(run, max_paths=50):
    print('path', i, len(eng.pc), {k:v.shape for k,v in res.items()}, time.time()-t0)
    if i==0:
        print(res['row_proportions'][0,0])
        print(res['zscores'][0,0])
    m = eng.path_model()
    ev = eng.evaluator(m)
    sym = {k: ev.value(v) for k,v in res.items()}
    inject.deactivate()
    conc = eng.run_concrete(run, m)
    inject.activate(eng)
    for k in res:
        a, b = np.asarray(sym[k],float), np.asarray(conc[k],float)
        ok = np.allclose(a,b,equal_nan=True, rtol=1e-9, atol=1e-12)
        if not ok: print('MISMATCH', k, a, b)
print(eng.stats.as_dict())
