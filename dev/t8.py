import sys; sys.path.insert(0,'/verif'); sys.path.insert(0,'/repo/src')
import numpy as np
from symx.engine import Engine
from symx import inject
from props import c14
import cr.cube.matrix.measure as mm
orig = mm._ScaleMean._weighted_mean
def dbg(proportions, values):
    print('TYPES', type(proportions), proportions.dtype, type(values), getattr(values,'dtype',None))
    m = ~mm.np.isnan(values)
    print('MASK', type(m), m.dtype, m)
    return orig(proportions, values)
mm._ScaleMean._weighted_mean = staticmethod(dbg)
eng=Engine('x'); inject.activate(eng)
try:
    for i,obs in eng.explore(lambda: c14.slice_stats(eng)):
        break
except Exception as e:
    print('ERR', e)
