import sys, time, faulthandler; sys.path.insert(0,'/verif'); sys.path.insert(0,'/repo/src')
faulthandler.dump_traceback_later(150, exit=True)
from symx import harness
from props import c04
spec=[s for s in c04.specs('quick') if s['name'].startswith('merge rows x cat (args')][0]
spec['prop']='C04'
import os; os.environ['SYMX_PROFILE']='1'
harness.PROFILE={}
r=harness.run_scenario(spec)
print(r.status, r.paths, r.vcs, r.messages[:3])
