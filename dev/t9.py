import sys; sys.path.insert(0,'/verif'); sys.path.insert(0,'/repo/src')
import z3, time
from symx.engine import Engine, prove
from symx import inject
from symx.scalar import Q, eqv, bz
from props import c14
eng=Engine('x'); inject.activate(eng)
n=0
for i,obs in eng.explore(lambda: c14.slice_stats(eng)):
    if i==0: continue
    o=[o for o in obs if o.label=='rows_scale_mean_stddev'][0]
    a=o.impl[0]; b=o.oracle[0]
    print('impl', str(a)[:700]); print('orc', str(b)[:700])
    g=bz(eqv(a,b))
    for kw in (dict(som=True), dict(som=True, sort_sums=True), dict(som=True, hoist_mul=False, mul_to_power=True)):
        t0=time.time(); r=z3.simplify(g, **kw); print(kw, time.time()-t0, str(r)[:300])
    break
