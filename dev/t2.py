import json, sys, time, cProfile, pstats
sys.path.insert(0, '/verif')
import numpy as np, z3
from symx.engine import Engine, prove
from symx import inject
from symx.scalar import Q, eqv
from symx.inject import SymList
from cr.cube.cube import Cube

fx = json.load(open('/repo/tests/fixtures/cat-hs-x-cat-hs.json'))
eng = Engine('t1')
KS=['counts','row_proportions','column_proportions','table_proportions','zscores','pvals','table_std_err','columns_margin','rows_margin','column_index','row_weighted_bases']
def run():
    resp = json.loads(json.dumps(fx))
    r = resp.get('value', resp)
    n = len(r['result']['counts'])
    r['result']['measures']['count']['data'] = SymList([eng.real('m%d' % i, lo=0) for i in range(n)])
    sl = Cube(resp).partitions[0]
    out = {}
    for k in KS:
        t0=time.time()
        out[k] = getattr(sl, k)
        if eng.symbolic: print(k, round(time.time()-t0,3))
    return out
inject.activate(eng)
t0=time.time()
pr=cProfile.Profile(); pr.enable()
for i,res in eng.explore(run, max_paths=50):
    pr.disable()
    print('path', i, len(eng.pc), time.time()-t0)
    m = eng.path_model()
    inject.UF.axioms and None
    ev = eng.evaluator(m)
    sym = {k: ev.value(v) for k,v in res.items()}
    inject.deactivate()
    conc = eng.run_concrete(run, m)
    inject.activate(eng)
    for k in res:
        a, b = np.asarray(sym[k],float), np.asarray(conc[k],float)
        ok = np.allclose(a,b,equal_nan=True, rtol=1e-9, atol=1e-12)
        if not ok: print('MISMATCH', k, a, b)
    print('witness ok', time.time()-t0)
    pr.enable()
pr.disable()
pstats.Stats(pr).sort_stats('cumulative').print_stats(35)
print(eng.stats.as_dict())
