"""Reflection helpers for the relational checks: read every public property of a partition and compare two readings."""
import numpy as np

from symx.harness import Obs
from symx.scalar import Q, SymBool, Unsupported

from cr.cube.util import lazyproperty

# public names that are objects / helpers rather than values
SKIP = {
    "min_base_size_mask", "pairwise_significance_tests", "cube_index", "dimension_types", "ndim",
    "selected_category_labels", "variable_name", "name", "description", "title", "tab_label", "tab_alias", "table_name",
    "cube_is_mr_aug", "cube_is_mr_by_itself", "cube_row_dimension_type",
    # expand counts with np.repeat (encoded as multisets, DESIGN 10): forks on parity and cumulative counts, so they are read only
    # where a scenario asks for them (public_props(include=...)); C14 checks their values
    "rows_scale_median_margin", "columns_scale_median_margin", "scale_median",
    # legacy summary objects built on scipy without the public t/p outputs
    "summary_pairwise_indices", "columns_scale_mean_pairwise_indices", "columns_scale_mean_pairwise_indices_alt",
}


def public_props(obj, include=()):
    names = []
    for klass in type(obj).__mro__:
        for k, v in vars(klass).items():
            if k.startswith("_") or (k in SKIP and k not in include):
                continue
            if isinstance(v, (lazyproperty, property)) and k not in names:
                names.append(k)
    return sorted(names)


class Raised:
    def __init__(self, exc):
        self.kind = type(exc).__name__

    def __repr__(self):
        return "raised %s" % self.kind

    def __eq__(self, other):
        return isinstance(other, Raised) and other.kind == self.kind

    __hash__ = None


def read(part, name):
    try:
        return getattr(part, name)
    except Unsupported:
        raise
    except (ValueError, NotImplementedError, TypeError, IndexError, KeyError, AttributeError, ZeroDivisionError) as e:
        return Raised(e)


def is_numeric_array(v):
    if isinstance(v, np.ndarray):
        if v.dtype == object:
            b = v.view(np.ndarray)
            return all(isinstance(e, (Q, SymBool, float, int, bool, np.floating, np.integer, np.bool_)) or e is None for e in b.flat)
        return v.dtype.kind in "fiub"
    return False


def plain(v):
    """hashable / comparable plain form of a non-numeric value"""
    if isinstance(v, Raised):
        return repr(v)
    if isinstance(v, np.ndarray):
        return [plain(e) for e in v.tolist()]
    if isinstance(v, (list, tuple)):
        return [plain(e) for e in v]
    if isinstance(v, (np.integer,)):
        return int(v)
    if isinstance(v, (np.floating,)):
        return float(v)
    if isinstance(v, (np.bool_,)):
        return bool(v)
    if v is None or isinstance(v, (int, float, str, bool)):
        return v
    if hasattr(v, "value") and hasattr(v, "name"):      # enum member
        return str(v)
    return repr(v)


def compare(label, a, b, transform_b=None):
    """Obs comparing reading a with reading b (b optionally re-indexed by transform_b)"""
    if isinstance(a, Raised) or isinstance(b, Raised):
        return [Obs(label, plain(a), plain(b), kind="same")]
    if transform_b is not None:
        b = transform_b(b)
    if isinstance(a, (Q, float, np.floating)) or isinstance(b, (Q, float, np.floating)):
        return [Obs(label, np.array([a], dtype=object), np.array([b], dtype=object))]
    if is_numeric_array(a) and is_numeric_array(b):
        if a.shape != b.shape:
            return [Obs(label + " shape", tuple(a.shape), tuple(b.shape), kind="same")]
        return [Obs(label, a, b)]
    return [Obs(label, plain(a), plain(b), kind="same")]
