"""Wire-level worlds: the scenario functions written against common.World run unchanged over a response whose wire
cells are FREE unknowns (one per cell, no consistency between the planes of different multiple-response items).

The defining expressions stay the same predicates (member / valid of an analysis element), read over wire cells instead
of answer patterns: a wire cell is the tuple of per-variable sub-indices, (category,) or (item, plane). Real responses
are a subset of these tensors, so a claim proved here covers them; the link from respondents to the tensor is C01/C02
over answer patterns. VCs mention one unknown per wire cell instead of sums over 3^items answer patterns, which is what
lets the larger sizes be decided.
"""
import numpy as np

from . import common as C
from .cellworld import CellWorld

SEL, OTH, MIS = 0, 1, 2


class WireAxis(C.Axis):
    def member(self, e, p, other=None):
        kind, k = self.elems[e]
        a = p[self.vi]
        if kind == "cat":
            return a[0] == k
        if kind == "sub":
            return a[0] in k
        if kind == "item":
            return a[0] == k and a[1] == SEL
        raise AssertionError(kind)

    def asked(self, e, p):
        """wire cells element e is tabulated from: for a multiple-response item its own three planes (every respondent appears
        once per item in the tensor), no restriction for categories"""
        kind, k = self.elems[e]
        return p[self.vi][0] == k if kind == "item" else True

    def valid(self, e, p, other=None):
        kind, k = self.elems[e]
        a = p[self.vi]
        if kind in ("cat", "sub"):
            return not self.var.cats[a[0]][1]
        if kind == "item":
            return a[0] == k and a[1] != MIS
        raise AssertionError(kind)


class WireWorld:
    def __init__(self, eng, specs, unweighted_concrete=None, prefix="", strict=False):
        """strict: every weighted wire cell > 0 (no empty bases: one path instead of one per pattern of empty margins).
        Unweighted wire cells are always > 0 here: the library evaluates its pruning masks eagerly, one path per pattern of
        empty vectors; empty vectors are the subject of the answer-pattern scenarios and of C09"""
        self.eng = eng
        self.cw = CellWorld(eng, specs, u_concrete=unweighted_concrete, prefix=prefix, w_strict=strict, u_strict=True)
        self.vars = self.cw.vars
        assert all(v.kind in ("cat", "mr", "catdate") for v in self.vars), "categorical arrays: use the answer-pattern world"
        self.axes = [WireAxis(vi, v) for vi, v in enumerate(self.vars)]
        widths = [len(v.shape) for v in self.vars]
        self.cells = []
        for idx in np.ndindex(self.cw.shape):
            p, at = [], 0
            for wd in widths:
                p.append(tuple(idx[at:at + wd]))
                at += wd
            self.cells.append((tuple(p), idx))

    def response(self, weighted=True, assume_weighted=False, **kw):
        self.cw.weighted = weighted
        return self.cw.response(assume_weighted=assume_weighted)

    def _sib(self, ax_a, ea, ax_b, eb):
        return None

    def cell_pred(self, ra, i, ca, j, extra=None):
        def pred(p):
            if extra is not None and not extra(p):
                return False
            return ra.member(i, p) and ca.member(j, p)
        return pred

    def mass(self, pred, weight="m"):
        T = self.cw.W if weight == "m" else self.cw.U
        tot = 0
        for p, idx in self.cells:
            if pred(p):
                tot = T[idx] + tot
        return tot


def world_for(eng, spec, wire=False, **kw):
    if wire:
        return WireWorld(eng, spec, strict=(wire == "strict"), **kw)
    return C.World(eng, spec, **kw)
