"""C11 Variance, standard error and margin of error of proportions."""
import numpy as np

from symx.harness import Obs
from symx.scalar import Q

from cr.cube.cube import Cube

from . import common as C
from .cellworld import CellWorld, insertion_terms

Z975 = 1.959964

META = {
    "title": "variance / std-dev / std-err / MoE of proportions",
    "bounds": {
        "quick": {"slice": "CAT(3) x CAT(3), weighted counts free reals; 0-2 insertions per dimension (sum subtotal, difference, overlapping addends), any anchors",
                  "strand": "CAT(3..4) with sum and difference insertions; MR(2) strand", "pattern mode": "CAT x MR, MR x CAT (2 items) ordinary cells", "wire-cell mode": "MR(2) x MR(2), MR(3) x CAT(3)",
                  "data": "all weighted counts >= 0"},
        "thorough": {"slice": "CAT(3) x CAT(4), up to 2 insertions per dimension incl. difference x difference", "strand": "CAT(5)", "wire-cell mode": "MR(3) x MR(3), CAT(4) x MR(4), MR(5) strand", "data": "all counts >= 0"},
    },
    "assumptions": ["weighted counts w >= 0 (cell level; C01/C02 link cells and bases to respondents)", "1.959964 is the binary float constant of the library"],
    "outside": ["MR x MR variances over answer-pattern masses (81 masses: the radical VCs are inconclusive in z3 within 40 s); they are claimed over free wire cells instead", "sizes beyond the bounds", "categorical-date wave differences (C04)"],
}


def elements(world, vi):
    """analysis elements of categorical variable vi in DISPLAY order: list of (signs dict wire_idx -> +1/-1, is_difference)"""
    var = world.vars[vi]
    base = [({k: 1}, False) for k in var.valid]
    ins = []
    for d in (var.insertions or []):
        pos, neg = insertion_terms(var, d)
        sg = {}
        for k in pos:
            sg[k] = 1
        for k in neg:
            sg[k] = -1 if k not in sg else sg[k]
        ins.append((d, sg, len(neg) > 0))
    return base, ins


def display_order(var, base, ins):
    """order of base elements and insertions by anchor (top / bottom / after element id; stale -> bottom)"""
    ids = [var.cats[k][0] for k in var.valid]
    top = [x for x in ins if x[0].get("anchor") == "top"]
    bottom = [x for x in ins if x[0].get("anchor") not in ids and x[0].get("anchor") != "top"]
    out = [(sg, diff) for (_, sg, diff) in top]
    for pos, cid in enumerate(ids):
        out.append(base[pos])
        for d, sg, diff in ins:
            if d.get("anchor") == cid:
                out.append((sg, diff))
    out += [(sg, diff) for (_, sg, diff) in bottom]
    return out


def _sum(terms):
    tot = None
    for t in terms:
        tot = t if tot is None else tot + t
    return tot


def slice_obs(eng, row_ins=(), col_ins=(), nrows=3, ncols=3):
    w = CellWorld(eng, [("cat", "a", nrows, {"missing_at": (1,), "insertions": list(row_ins)}),
                        ("cat", "b", ncols, {"missing_at": (0,), "insertions": list(col_ins)})])
    part = Cube(w.response()).partitions[0]
    rb, ri = elements(w, 0)
    cb, ci = elements(w, 1)
    R = display_order(w.vars[0], rb, ri)
    Cc = display_order(w.vars[1], cb, ci)
    rv, cv = w.valid(0), w.valid(1)
    W = w.W
    N = _sum([W[i, j] for i in rv for j in cv])
    nan = C.nan_like(eng)
    zero = Q.lift(0) if eng.symbolic else 0.0

    def cell(rsg, csg, absolute=False):
        tot = zero
        for i, si in rsg.items():
            for j, sj in csg.items():
                s = si * sj
                tot = tot + (W[i, j] if (absolute or s > 0) else -W[i, j])
        return tot

    out = {k: [] for k in ("row", "column", "table")}
    for rsg, rdiff in R:
        rows = {k: [] for k in out}
        for csg, cdiff in Cc:
            cnt = cell(rsg, csg)
            absn = cell(rsg, csg, absolute=True)
            both = rdiff and cdiff
            # table direction: base = everybody
            if both:
                rows["table"].append((nan, nan))
            else:
                p = C.div(cnt, N)
                rows["table"].append((C.div(absn, N) - p * p, N))
            # row direction: base = members of the row element (all columns); undefined for a difference row
            if rdiff:
                rows["row"].append((nan, nan))
            else:
                B = _sum([W[i, j] for i in rsg for j in cv])
                p = C.div(cnt, B)
                rows["row"].append((C.div(absn, B) - p * p, B))
            if cdiff:
                rows["column"].append((nan, nan))
            else:
                B = _sum([W[i, j] for i in rv for j in csg])
                p = C.div(cnt, B)
                rows["column"].append((C.div(absn, B) - p * p, B))
        for k in out:
            out[k].append(rows[k])
    obs = []
    for d in ("row", "column", "table"):
        var = C.to_array([[v for (v, b) in r] for r in out[d]])
        sd = C.to_array([[C.sqrt(v) for (v, b) in r] for r in out[d]])
        se = C.to_array([[C.sqrt(C.div(v, b)) for (v, b) in r] for r in out[d]])
        moe = C.to_array([[C.sqrt(C.div(v, b)) * Z975 for (v, b) in r] for r in out[d]])
        obs.append(Obs(d + "_proportion_variances", getattr(part, d + "_proportion_variances"), var))
        obs.append(Obs(d + "_std_dev", getattr(part, d + "_std_dev"), sd))
        obs.append(Obs(d + "_std_err", getattr(part, d + "_std_err"), se))
        obs.append(Obs(d + "_proportions_moe", getattr(part, d + "_proportions_moe"), moe))
        nonneg = np.empty(var.shape, dtype=object)
        iv = getattr(part, d + "_proportion_variances").view(np.ndarray)
        for idx in np.ndindex(var.shape):
            x = iv[idx]
            nonneg[idx] = (Q.lift(x).isnan() | (Q.lift(x) >= 0)) if eng.symbolic else bool(np.isnan(x) or x >= 0)
        obs.append(Obs(d + "_proportion_variances >= 0 or NaN", nonneg, kind="holds"))
    return obs


def strand_obs(eng, n=3, ins=()):
    w = CellWorld(eng, [("cat", "a", n, {"missing_at": (1,), "insertions": list(ins)})])
    part = Cube(w.response()).partitions[0]
    rb, ri = elements(w, 0)
    R = display_order(w.vars[0], rb, ri)
    rv = w.valid(0)
    N = _sum([w.W[(i,)] for i in rv])
    zero = Q.lift(0) if eng.symbolic else 0.0
    var, sd, se, moe = [], [], [], []
    for rsg, rdiff in R:
        cnt = zero
        absn = zero
        for i, si in rsg.items():
            cnt = cnt + (w.W[(i,)] if si > 0 else -w.W[(i,)])
            absn = absn + w.W[(i,)]
        p = C.div(cnt, N)
        v = C.div(absn, N) - p * p
        sd.append(C.sqrt(v))
        se.append(C.sqrt(C.div(v, N)))
        moe.append(C.sqrt(C.div(v, N)) * Z975)
    return [Obs("table_proportion_stddevs", part.table_proportion_stddevs, C.to_array(sd)),
            Obs("table_proportion_stderrs", part.table_proportion_stderrs, C.to_array(se)),
            Obs("table_proportion_moes", part.table_proportion_moes, C.to_array(moe))]


def _nan_where(eng, P, V):
    """wherever the proportion is undefined (NaN) so is the derived statistic"""
    p, v = P.view(np.ndarray), V.view(np.ndarray)
    out = np.empty(p.shape, dtype=object)
    for idx in np.ndindex(p.shape):
        if eng.symbolic:
            pn, vn = Q.lift(p[idx]).isnan(), Q.lift(v[idx]).isnan()
            if isinstance(pn, (bool, np.bool_)):
                out[idx] = vn if pn else True
            else:
                out[idx] = (~pn) | vn
        else:
            out[idx] = bool((not np.isnan(p[idx])) or np.isnan(v[idx]))
    return out


def undefined_proportions(eng, kind="wave_difference"):
    """cells whose proportion is undefined although their base is defined: a multi-term wave difference on a categorical-date
    dimension (its column proportions are blanked), or a difference in a cube whose counts are weighted valid counts"""
    if kind == "wave_difference":
        rows = ("catdate", "a", 3, {"missing_at": (1,), "insertions": [D("r3-12", [3], [1, 2]), S("r12", [1, 2], anchor="top")]})
        cols = ("cat", "b", 2, {"missing_at": (0,), "insertions": [S("c12", [1, 2])]})
        w = CellWorld(eng, [rows, cols])
    else:
        rows = ("cat", "a", 3, {"missing_at": (1,), "insertions": [D("r1-3", [1], [3])]})
        cols = ("cat", "b", 2, {"missing_at": (0,)})
        w = CellWorld(eng, [rows, cols])
        w.free_measure("mean", "x")
        w.free_measure("valid_count_weighted", "vw", lo=0)
    part = Cube(w.response()).partitions[0]
    obs = []
    for d in ("row", "column", "table"):
        P = getattr(part, d + "_proportions")
        for nm in (d + "_proportion_variances", d + "_std_dev", d + "_std_err", d + "_proportions_moe"):
            obs.append(Obs("%s is NaN wherever the %s proportion is" % (nm, d), _nan_where(eng, P, getattr(part, nm)), kind="holds"))
    return obs


def mr_pair(eng, rows, cols, wire=False):
    """ordinary cells with multiple-response dimensions (respondent-level masses, or free wire cells): variance = p(1-p) over the cell's own base"""
    from .c02 import bases_matrix
    from .wire import world_for
    world = world_for(eng, [rows, cols] if cols is not None else [rows], wire, unweighted_concrete=2)
    part = Cube(world.response(assume_weighted=True)).partitions[0]
    if cols is None:
        rax = world.axes[0]
        sd, se = [], []
        for i in range(len(rax)):
            cnt = world.mass(lambda p: rax.member(i, p))
            B = world.mass(lambda p: rax.valid(i, p))
            p_ = C.div(cnt, B)
            v = p_ * (1 - p_)
            sd.append(C.sqrt(v))
            se.append(C.sqrt(C.div(v, B)))
        return [Obs("table_proportion_stddevs", part.table_proportion_stddevs, C.to_array(sd)),
                Obs("table_proportion_stderrs", part.table_proportion_stderrs, C.to_array(se))]
    _, rax, cax = C.slice_axes(world)
    cnt = C.to_array([[world.mass(world.cell_pred(rax, i, cax, j)) for j in range(len(cax))] for i in range(len(rax))])
    obs = []
    for which, name in (("row", "row"), ("col", "column"), ("table", "table")):
        B = bases_matrix(world, rax, cax, which, "m")
        var = np.empty(B.shape, dtype=object)
        se = np.empty(B.shape, dtype=object)
        for idx in np.ndindex(B.shape):
            p_ = C.div(cnt[idx], B[idx])
            var[idx] = p_ * (1 - p_)
            se[idx] = C.sqrt(C.div(var[idx], B[idx]))
        obs.append(Obs(name + "_proportion_variances", getattr(part, name + "_proportion_variances"), var))
        obs.append(Obs(name + "_std_err", getattr(part, name + "_std_err"), se))
    return obs


S = C.subtotal


def D(name, pos, neg, anchor="bottom"):
    return {"anchor": anchor, "function": "subtotal", "name": name, "kwargs": {"positive": list(pos), "negative": list(neg)}}


def specs(tier):
    from .c01 import V
    out = []
    M = "props.c11"

    def add(name, fn, params, max_paths=60):
        out.append(dict(module=M, fn=fn, name=name, params=params, max_paths=max_paths, vc_timeouts=(5, 40)))

    add("slice plain", "slice_obs", dict())
    add("slice row subtotal + col subtotal", "slice_obs", dict(row_ins=[S("r12", [1, 2])], col_ins=[S("c23", [2, 3], anchor="top")]))
    add("slice row difference", "slice_obs", dict(row_ins=[D("r1-3", [1], [3])]))
    add("slice row difference + col subtotal (no column difference)", "slice_obs", dict(row_ins=[D("r1-3", [1], [3])], col_ins=[S("c23", [2, 3], anchor="top")]))
    add("slice col difference + row subtotal", "slice_obs", dict(row_ins=[S("r13", [1, 3], anchor=1)], col_ins=[D("c12-3", [1, 2], [3])]))
    add("slice row difference x col difference", "slice_obs", dict(row_ins=[D("r2-1", [2], [1], anchor="top")], col_ins=[D("c3-1", [3], [1])]))
    add("slice overlapping subtotals", "slice_obs", dict(row_ins=[S("r12", [1, 2]), S("r23", [2, 3], anchor=2)]))
    add("undefined proportions: multi-term wave difference", "undefined_proportions", dict(kind="wave_difference"))
    add("undefined proportions: difference over weighted valid counts", "undefined_proportions", dict(kind="valid_counts"))
    add("strand plain", "strand_obs", dict())
    add("strand subtotal + difference", "strand_obs", dict(n=4, ins=[S("s12", [1, 2], anchor="top"), D("d", [3, 4], [1])]))
    add("mr strand", "mr_pair", dict(rows=V("mr", "a", 2), cols=None))
    add("cat x mr", "mr_pair", dict(rows=V("cat", "a", 2, (1,)), cols=V("mr", "b", 2)))
    add("mr x cat", "mr_pair", dict(rows=V("mr", "a", 2), cols=V("cat", "b", 2, (0,))))
    add("wire mr x mr", "mr_pair", dict(rows=V("mr", "a", 2), cols=V("mr", "b", 2), wire=True))
    add("wire mr3 x cat3", "mr_pair", dict(rows=V("mr", "a", 3), cols=V("cat", "b", 3, (1,)), wire=True))
    if tier == "thorough":
        add("wire mr3 x mr3", "mr_pair", dict(rows=V("mr", "a", 3), cols=V("mr", "b", 3), wire=True))
        add("wire cat4 x mr4", "mr_pair", dict(rows=V("cat", "a", 4, (2,)), cols=V("mr", "b", 4), wire=True))
        add("wire mr5 strand", "mr_pair", dict(rows=V("mr", "a", 5), cols=None, wire=True))
        add("slice 3x4 two insertions each", "slice_obs", dict(ncols=4, row_ins=[S("r12", [1, 2]), D("r3-1", [3], [1], anchor="top")],
                                                               col_ins=[S("c14", [1, 4], anchor=2), D("c23-4", [2, 3], [4])]))
        add("strand 5", "strand_obs", dict(n=5, ins=[S("s", [1, 2, 3]), D("d", [5], [1, 2], anchor=3)]))
        add("mr3 strand", "mr_pair", dict(rows=V("mr", "a", 3), cols=None))
    return out
