"""C06 Partitioning of 3-D and multi-cube responses restricts to the right respondents."""
import numpy as np

from symx.harness import Obs
from symx.inject import SymList
from symx.scalar import Q

from cr.cube.cube import Cube, CubeSet

from . import common as C
from . import reflect as R
from .cellworld import CellWorld, NUM_META
from .c11 import D, S

META = {
    "title": "3-D / multi-cube partitioning",
    "bounds": {
        "quick": {"3-D": "table CAT(2 valid, missing category first / middle) or MR(2 items) x CAT(2) x CAT(2)/MR(2); one scenario per partition; rows with a sum subtotal and numeric values; carried mean measure variant (CAT x MR x CAT)",
                  "multi-cube": "CA(2 items x 2 cats) as leading cube + CA x CAT; numeric-summary cube set (0-D + 1-D cubes)",
                  "properties": "every public property of the partition (reflection) against the 2-D analysis of the restricted respondents",
                  "data": "all weighted wire-tensor entries >= 0 (free), population symbolic"},
        "thorough": {"3-D": "as quick plus CAT(3) table with two missing categories, MR x MR x CAT", "multi-cube": "same", "data": "same"},
    },
    "assumptions": ["weighted counts >= 0; head counts fixed", "restriction to 'members of table element k' is the k-th valid (MR: selected) plane of the wire tensor, which is what C01 proves at respondent level"],
    "outside": ["table_name / tab_label strings (checked concretely only)", "sizes beyond the bounds"],
}


PAIRWISE = {"pairwise_indices", "pairwise_indices_alt", "pairwise_means_indices", "pairwise_means_indices_alt"}


def sub2d(w, k):
    """2-D CellWorld of the rows x columns variables restricted to table element k of the 3-D CellWorld w"""
    tv = w.vars[0]
    if tv.kind == "cat":
        sel = (tv.valid[k],)
    elif tv.kind == "mr":
        sel = (k, 0)
    else:
        raise ValueError(tv.kind)
    t = CellWorld.__new__(CellWorld)
    t.eng = w.eng
    t.vars = w.vars[1:]
    t.W = w.W[sel]
    t.U = w.U[sel]
    t.shape = t.W.shape
    t.weighted = w.weighted
    t.extra = {}
    for name, m in w.extra.items():
        M = np.empty(w.shape, dtype=object)
        for idx, x in zip(np.ndindex(w.shape), m["data"]):
            M[idx] = x
        t.extra[name] = dict(m, data=SymList(M[sel].reshape(-1).tolist()))
    return t


def three_d(eng, table, rows, cols, k=0, mean=False, squared=False):
    w = CellWorld(eng, [table, rows, cols])
    if squared:
        # squared weights: the effective base of the pairwise column tests comes from the k-th plane of that measure too
        SQ = w.free_measure("weighted_squared_count", "q")
        for idx in np.ndindex(w.shape):
            if eng.symbolic:
                eng.assume(Q.lift(SQ[idx]) > 0)
    if mean:
        w.free_measure("mean" if mean is True else mean, "x", lo=0 if mean == "stddev" else None)
    P = eng.pyreal("P", lo=0)
    cube3 = Cube(w.response(), population=P)
    parts = cube3.partitions
    part = parts[k]
    ref = Cube(sub2d(w, k).response(assume_weighted=False), population=P).partitions[0]
    n_expected = len(w.vars[0].valid) if w.vars[0].kind == "cat" else w.vars[0].n
    obs = [Obs("number of partitions", len(parts), n_expected, kind="same")]
    for p in R.public_props(part):
        if p in PAIRWISE:
            continue     # every p < alpha comparison forks the path: index sets are C13's subject (t and p matrices are compared below)
        obs += R.compare("p%d.%s" % (k, p), R.read(part, p), R.read(ref, p))
    if not mean:
        obs += R.compare("p%d.pairwise_significance_t_stats(0)" % k, part.pairwise_significance_t_stats(0), ref.pairwise_significance_t_stats(0))
        obs += R.compare("p%d.pairwise_significance_p_vals(1)" % k, part.pairwise_significance_p_vals(1), ref.pairwise_significance_p_vals(1))
    obs.append(Obs("row_order", [int(i) for i in part.row_order()], [int(i) for i in ref.row_order()], kind="same"))
    return obs


def ca_as_0th(eng, k=0):
    """CA leading cube of a multi-cube set: partition k of the first cube is the univariate analysis of sub-variable k"""
    ca = ("ca", "g", (2, 2), {"missing_at": (1,), "insertions": [S("s12", [1, 2])]})
    w0 = CellWorld(eng, [ca], prefix="a")
    w1 = CellWorld(eng, [ca, ("cat", "b", 2, {"missing_at": (0,)})], prefix="b")
    cs = CubeSet([w0.response(), w1.response()], transforms=[{}, {}], population=1000, min_base=0)
    psets = cs.partition_sets
    obs = [Obs("number of partition sets", len(psets), 2, kind="same"),
           Obs("partitions per set", [len(ps) for ps in psets], [2, 2], kind="same"),
           Obs("ndims", [[p.ndim for p in ps] for ps in psets], [[1, 2], [1, 2]], kind="same")]
    strand = psets[k][0]
    # univariate analysis of sub-variable k: a categorical with the CA's categories and the k-th row of the tensor
    cav = w0.vars[0]
    uni = CellWorld.__new__(CellWorld)
    uni.eng = eng
    from symx import tab
    uv = tab.Cat("g", cav.cats, insertions=cav.insertions)
    uni.vars = [uv]
    uni.W = w0.W[k]
    uni.U = w0.U[k]
    uni.shape = uni.W.shape
    uni.weighted = True
    uni.extra = {}
    ref = Cube(uni.response(assume_weighted=False), population=1000).partitions[0]
    for p in R.public_props(strand):
        if p in PAIRWISE or p in ("rows_dimension_name", "rows_dimension_description", "rows_dimension_alias", "rows_dimension_type"):
            continue
        obs += R.compare("set%d[0].%s" % (k, p), R.read(strand, p), R.read(ref, p))
    # the second cube's k-th partition lines up with it
    w1sub = sub_ca(w1, k)
    ref2 = Cube(w1sub.response(assume_weighted=False), population=1000).partitions[0]
    sl = psets[k][1]
    for p in ("counts", "row_proportions", "column_proportions", "table_proportions", "columns_margin", "rows_margin", "zscores", "table_std_err", "population_counts"):
        obs += R.compare("set%d[1].%s" % (k, p), R.read(sl, p), R.read(ref2, p))
    return obs


def sub_ca(w, k):
    """2-D world CA-categories x columns restricted to item k of the CA table dimension"""
    from symx import tab
    cav = w.vars[0]
    t = CellWorld.__new__(CellWorld)
    t.eng = w.eng
    t.vars = [tab.Cat("g", cav.cats, insertions=cav.insertions)] + w.vars[1:]
    t.W = w.W[k]
    t.U = w.U[k]
    t.shape = t.W.shape
    t.weighted = w.weighted
    t.extra = {}
    return t


def numeric_rows(eng):
    """numeric-summary multitable: 0-D first cube and 1-D second cube are padded with a one-row dimension"""
    cat = ("cat", "b", 3, {"missing_at": (1,)})
    w1 = CellWorld(eng, [cat], prefix="b")
    means = w1.free_measure("mean", "x", unavailable=[[1]])
    m0 = eng.real("m0")
    r0 = {"query": {}, "result": {"dimensions": [], "counts": SymList([7]), "element": "crunch:cube", "missing": 0, "n": 7,
                                  "measures": {"count": {"data": SymList([eng.real("w0", lo=0)]), "metadata": NUM_META, "n_missing": 0},
                                               "mean": {"data": SymList([m0]), "metadata": NUM_META, "n_missing": 0}}}}
    cs = CubeSet([r0, w1.response()], transforms=[{}, {}], population=1000, min_base=0)
    psets = cs.partition_sets
    obs = [Obs("number of partition sets", len(psets), 1, kind="same"),
           Obs("partitions per set", [len(ps) for ps in psets], [2], kind="same")]
    first, second = psets[0]
    obs.append(Obs("first cube mean", C.to_array([first.means[0]] if getattr(first.means, "ndim", 0) else [first.means]), C.to_array([m0])))
    obs.append(Obs("second cube shape", tuple(second.shape), (1, 3), kind="same"))
    valid = w1.valid(0)
    obs.append(Obs("second cube means", second.means, C.to_array([[means[(k,)] for k in valid]])))
    obs.append(Obs("second cube counts", second.counts, C.to_array([[w1.W[(k,)] for k in valid]])))
    return obs


def _text_dim(values, ids=None):
    ids = ids if ids is not None else list(range(len(values)))
    return {"derived": True, "references": {"alias": "txt", "description": "text", "name": "txt"},
            "type": {"class": "enum", "elements": [{"id": i, "value": v} for i, v in zip(ids, values)],
                     "subtype": {"class": "text", "missing_reasons": {"No Data": -1}, "missing_rules": {}}}}


def augmented_filter_cube(eng):
    """multi-cube set whose later cube is a single-column filter cube lacking the rows with zero count: it is re-aligned on the
    summary cube's rows (zero-filled) without losing its transforms or the population"""
    vals = ["A", "B", "C", "D"]
    s_counts = [eng.real("s%d" % k, lo=0) for k in range(4)]
    f_counts = [eng.real("f%d" % k, lo=0) for k in range(2)]

    def resp(values, counts, single):
        r = {"dimensions": [_text_dim(values)], "counts": SymList(list(counts)), "element": "crunch:cube", "missing": 0, "n": 10,
             "measures": {"count": {"data": SymList(list(counts)), "metadata": NUM_META, "n_missing": 0}}}
        if single:
            r["is_single_col_cube"] = True
        return {"query": {}, "result": r}
    P = eng.pyreal("P", lo=0)
    tr = {"rows_dimension": {"order": {"type": "explicit", "element_ids": [3, 0]}, "elements": {"2": {"hide": True}}}}
    cs = CubeSet([resp(vals, s_counts, False), resp(["B", "D"], f_counts, True)], transforms=[{}, tr], population=P, min_base=0)
    part = cs.partition_sets[0][1]
    zero = Q.lift(0) if eng.symbolic else 0.0
    full = [zero, f_counts[0], zero, f_counts[1]]
    ref = Cube(resp(vals, full, False), transforms=tr, population=P).partitions[0]
    obs = []
    for p in ("counts", "row_labels", "table_proportions", "population_counts", "population_counts_moe", "rows_margin", "shape", "unweighted_counts"):
        obs += R.compare("augmented filter cube: %s" % p, R.read(part, p), R.read(ref, p))
    obs.append(Obs("augmented filter cube: row_order", [int(i) for i in part.row_order()], [int(i) for i in ref.row_order()], kind="same"))
    return obs


def specs(tier):
    out = []
    M = "props.c06"

    def add(name, fn, params, max_paths=120):
        out.append(dict(module=M, fn=fn, name=name, params=params, max_paths=max_paths, vc_timeouts=(5, 40)))

    rows = ("cat", "a", 2, {"missing_at": (1,), "insertions": [S("r12", [1, 2], anchor="top")], "numeric_values": {1: 1, 2: 3}})
    cols = ("cat", "b", 2, {"missing_at": (0,)})
    for k in (0, 1):
        add("cat(missing first) x cat x cat p%d" % k, "three_d", dict(table=("cat", "t", 2, {"missing_at": (0,)}), rows=rows, cols=cols, k=k))
        add("cat(missing middle) x cat x cat p%d" % k, "three_d", dict(table=("cat", "t", 2, {"missing_at": (1,)}), rows=rows, cols=cols, k=k))
        add("mr x cat x cat p%d" % k, "three_d", dict(table=("mr", "t", 2, {}), rows=rows, cols=cols, k=k))
    add("cat x mr x cat p1", "three_d", dict(table=("cat", "t", 2, {"missing_at": (1,)}), rows=("mr", "a", 2, {}), cols=cols, k=1))
    add("cat x cat x mr p1", "three_d", dict(table=("cat", "t", 2, {"missing_at": (1,)}), rows=("cat", "a", 2, {"missing_at": (1,)}), cols=("mr", "b", 2, {}), k=1))
    add("cat x mr x cat p1 with means", "three_d", dict(table=("cat", "t", 2, {"missing_at": (1,)}), rows=("mr", "a", 2, {}), cols=cols, k=1, mean=True))
    add("mr x cat x cat p1 with means", "three_d", dict(table=("mr", "t", 2, {}), rows=("cat", "a", 2, {"missing_at": (1,)}), cols=cols, k=1, mean=True))
    for meas in ("median", "stddev", "sum"):
        add("cat x mr x cat p1 with %s" % meas, "three_d", dict(table=("cat", "t", 2, {"missing_at": (1,)}), rows=("mr", "a", 2, {}), cols=cols, k=1, mean=meas))
    add("cat x cat x mr p0 with median", "three_d", dict(table=("cat", "t", 2, {"missing_at": (0,)}), rows=("cat", "a", 2, {"missing_at": (1,)}), cols=("mr", "b", 2, {}), k=0, mean="median"))
    add("cat(missing first) x cat x cat p0 with squared weights", "three_d", dict(table=("cat", "t", 2, {"missing_at": (0,)}), rows=("cat", "a", 2, {"missing_at": (1,)}), cols=cols, k=0, squared=True))
    add("augmented single-column filter cube in a cube set", "augmented_filter_cube", dict())
    for k in (0, 1):
        add("ca as 0th set %d" % k, "ca_as_0th", dict(k=k))
    add("numeric-summary cube set", "numeric_rows", dict())
    if tier == "thorough":
        add("cat3(0,2) x cat x cat p2", "three_d", dict(table=("cat", "t", 3, {"missing_at": (0, 2)}), rows=rows, cols=cols, k=2))
        add("mr x mr x cat p0", "three_d", dict(table=("mr", "t", 2, {}), rows=("mr", "a", 2, {}), cols=cols, k=0), max_paths=300)
    return out
