"""C03 Proportions are count over base, bounded, and sum to one."""
import numpy as np

from symx.harness import Obs
from symx.scalar import Q, SymBool

from cr.cube.cube import Cube

from . import common as C
from .wire import world_for
from .c01 import V
from .c02 import Vs, bases_matrix

META = {
    "title": "proportions = count / base, in [0,1], sum to 1",
    "bounds": {
        "quick": {"wire-level (one unknown per wire cell, positive head counts)": "MR(3) x CAT(3), CAT(3)+subtotal x MR(3), MR(3) x MR(2..3)", "cat_valid": 2, "mr_items": 2, "ca": "2x2", "pairs": "CAT/MR squared, CA, CAT_DATE; 1-D CAT/MR",
                  "subtotals": "one bottom-anchored sum subtotal", "data": "all pattern masses m,u >= 0 (zero bases included)"},
        "thorough": {"wire-level (one unknown per wire cell, positive head counts, weighted counts >= 0)": "CAT(5)+2 subtotals squared, MR(5) x CAT(4)+subtotal and transposed, MR(4) x MR(4), MR(5) and CAT(6)+2 subtotals strands", "cat_valid": 3, "mr_items": "2-3", "ca": "2x3", "data": "all pattern masses"},
    },
    "assumptions": ["A1: pattern masses m[p] >= 0, u[p] >= 0", "tabulator models the backend wire layout; floats are reals"],
    "outside": ["difference subtotals (C04)", "sizes beyond the bounds"],
}


def _ratio(A, B):
    out = np.empty(A.shape, dtype=object)
    for idx in np.ndindex(A.shape):
        out[idx] = C.div(A[idx], B[idx])
    return out


def _times100(A):
    out = np.empty(A.shape, dtype=object)
    for idx in np.ndindex(A.shape):
        out[idx] = A[idx] * 100
    return out


def _in_unit(eng, P):
    """cell is NaN or lies in [0, 1]"""
    out = np.empty(P.shape, dtype=object)
    b = P.view(np.ndarray) if isinstance(P, np.ndarray) else P
    for idx in np.ndindex(P.shape):
        x = b[idx]
        if eng.symbolic:
            x = Q.lift(x)
            out[idx] = x.isnan() | ((x >= 0) & (x <= 1))
        else:
            out[idx] = bool(np.isnan(x) or (0 <= x <= 1))
    return out


def _nan_iff_zero(eng, P, B):
    out = np.empty(P.shape, dtype=object)
    b = P.view(np.ndarray)
    for idx in np.ndindex(P.shape):
        if eng.symbolic:
            out[idx] = (Q.lift(b[idx]).isnan() == (Q.lift(B[idx]) == 0))
        else:
            out[idx] = bool(np.isnan(b[idx]) == (B[idx] == 0))
    return out


def _sum_to_one(eng, P, B, axis, nbase):
    """along `axis`, the proportions of the first `nbase` (base) elements sum to 1 when the base is positive"""
    b = P.view(np.ndarray)
    n_other = P.shape[1 - axis]
    out = np.empty(n_other, dtype=object)
    for o in range(n_other):
        tot = None
        for k in range(nbase):
            x = b[(k, o) if axis == 0 else (o, k)]
            tot = x if tot is None else tot + x
        base = B[(0, o) if axis == 0 else (o, 0)]
        if eng.symbolic:
            out[o] = (Q.lift(base) == 0) | (Q.lift(tot) == 1)
        else:
            out[o] = bool(base == 0 or abs(tot - 1) < 1e-9)
    return out


def two_d(eng, rows, cols, weighted=True, wire=False):
    world = world_for(eng, [rows, cols] if cols is not None else [rows], wire)
    cube = Cube(world.response(weighted=weighted))
    part = cube.partitions[0]
    _, rax, cax = C.slice_axes(world)
    wm = "m" if weighted else "u"
    cnt = C.to_array([[world.mass(world.cell_pred(rax, i, cax, j), wm) for j in range(len(cax))] for i in range(len(rax))])
    obs = []
    props = {}
    for which, name in (("row", "row"), ("col", "column"), ("table", "table")):
        B = bases_matrix(world, rax, cax, which, wm)
        P = getattr(part, name + "_proportions")
        props[which] = (P, B)
        obs.append(Obs(name + "_proportions", P, _ratio(cnt, B)))
        obs.append(Obs(name + "_percentages", getattr(part, name + "_percentages"), _times100(_ratio(cnt, B))))
        obs.append(Obs(name + "_proportions in [0,1] or NaN", _in_unit(eng, P), kind="holds"))
        obs.append(Obs(name + "_proportions NaN iff base == 0", _nan_iff_zero(eng, P, B), kind="holds"))
    nbr = len([e for e in rax.elems if e[0] != "sub"])
    nbc = len([e for e in cax.elems if e[0] != "sub"])
    if rax.var.kind == "cat":
        P, B = props["col"]
        obs.append(Obs("column_proportions sum to 1 over the rows dimension", _sum_to_one(eng, P, B, 0, nbr), kind="holds"))
    if cax.var.kind == "cat":
        P, B = props["row"]
        obs.append(Obs("row_proportions sum to 1 over the columns dimension", _sum_to_one(eng, P, B, 1, nbc), kind="holds"))
    # margin proportions: margin over table base
    Bt = bases_matrix(world, rax, cax, "table", wm)
    Br = bases_matrix(world, rax, cax, "row", wm)
    Bc = bases_matrix(world, rax, cax, "col", wm)
    rmp = part.rows_margin_proportion
    cmp_ = part.columns_margin_proportion
    if getattr(rmp, "ndim", 0) == 2:
        obs.append(Obs("rows_margin_proportion", rmp, _ratio(Br, Bt)))
    else:
        for j in range(len(cax)):
            obs.append(Obs("rows_margin_proportion~col%d" % j, rmp, _ratio(Br, Bt)[:, j]))
    if getattr(cmp_, "ndim", 0) == 2:
        obs.append(Obs("columns_margin_proportion", cmp_, _ratio(Bc, Bt)))
    else:
        for i in range(len(rax)):
            obs.append(Obs("columns_margin_proportion~row%d" % i, cmp_, _ratio(Bc, Bt)[i, :]))
    return obs


def one_d(eng, rows, weighted=True, wire=False):
    world = world_for(eng, [rows], wire)
    cube = Cube(world.response(weighted=weighted))
    part = cube.partitions[0]
    rax = world.axes[0]
    wm = "m" if weighted else "u"
    cnt = C.to_array([world.mass(lambda p, i=i: rax.member(i, p), wm) for i in range(len(rax))])
    B = C.to_array([world.mass(lambda p, i=i: rax.valid(i, p), wm) for i in range(len(rax))])
    P = part.table_proportions
    obs = [Obs("table_proportions", P, _ratio(cnt, B)),
           Obs("table_percentages", part.table_percentages, _times100(_ratio(cnt, B))),
           Obs("table_proportions in [0,1] or NaN", _in_unit(eng, P), kind="holds"),
           Obs("table_proportions NaN iff base == 0", _nan_iff_zero(eng, P, B), kind="holds")]
    if rax.var.kind == "cat":
        nb = len([e for e in rax.elems if e[0] != "sub"])
        b = P.view(np.ndarray)
        tot = None
        for k in range(nb):
            tot = b[k] if tot is None else tot + b[k]
        if eng.symbolic:
            cond = (Q.lift(B[0]) == 0) | (Q.lift(tot) == 1)
        else:
            cond = bool(B[0] == 0 or abs(tot - 1) < 1e-9)
        obs.append(Obs("table_proportions sum to 1", C.to_array([cond]), kind="holds"))
    return obs


def percentages_of_differences(eng, strand=False):
    """percentage forms are exactly 100 times the proportions for every cell, difference subtotals (negative values) included"""
    from .cellworld import CellWorld
    from .c11 import D, S
    rows = ("cat", "a", 3, {"missing_at": (1,), "insertions": [D("d1-3", [1], [3], anchor="top"), S("s12", [1, 2])]})
    cols = ("cat", "b", 2, {"missing_at": (0,), "insertions": [D("c1-2", [1], [2])]})
    w = CellWorld(eng, [rows] if strand else [rows, cols])
    part = Cube(w.response()).partitions[0]
    obs = []
    names = ["table"] if strand else ["row", "column", "table"]
    for n in names:
        P = getattr(part, n + "_proportions")
        obs.append(Obs(n + "_percentages == 100 x proportions", getattr(part, n + "_percentages"), _times100(P.view(np.ndarray))))
    return obs


def specs(tier):
    out = []
    M = "props.c03"

    def add(name, fn, params, max_paths=150):
        out.append(dict(module=M, fn=fn, name=name, params=params, max_paths=max_paths, vc_timeouts=(3, 30)))

    add("2d cat x cat", "two_d", dict(rows=V("cat", "a", 2, (1,)), cols=V("cat", "b", 2, (0,))))
    add("2d cat x cat (missing last/middle)", "two_d", dict(rows=V("cat", "a", 2, (2,)), cols=V("cat", "b", 2, (1,))))
    add("2d cat x mr", "two_d", dict(rows=V("cat", "a", 2, (1,)), cols=V("mr", "b", 2)))
    add("2d mr x cat", "two_d", dict(rows=V("mr", "a", 2), cols=V("cat", "b", 2, (0,))))
    add("2d mr x mr", "two_d", dict(rows=V("mr", "a", 2), cols=V("mr", "b", 2)))
    add("2d ca", "two_d", dict(rows=V("ca", "a", (2, 2), (1,)), cols=None))
    add("2d catdate x cat", "two_d", dict(rows=V("catdate", "a", 2, (0,)), cols=V("cat", "b", 2, (1,))))
    add("2d cat x cat unweighted", "two_d", dict(rows=V("cat", "a", 2, (1,)), cols=V("cat", "b", 2, (0,)), weighted=False))
    add("2d cat+sub x cat", "two_d", dict(rows=Vs("cat", "a", 2, (1,), sub=[1, 2]), cols=V("cat", "b", 2, (0,))))
    add("2d cat+sub (an id repeated in the addend list) x cat", "two_d", dict(rows=Vs("cat", "a", 2, (1,), sub=[1, 2, 2]), cols=V("cat", "b", 2, (0,))))
    add("1d cat+sub (an id repeated in the addend list)", "one_d", dict(rows=Vs("cat", "a", 3, (0,), sub=[3, 1, 3])))
    add("2d cat x cat+sub", "two_d", dict(rows=V("cat", "a", 2, (1,)), cols=Vs("cat", "b", 2, (2,), sub=[2, 1])))
    add("2d cat+sub x mr", "two_d", dict(rows=Vs("cat", "a", 2, (0,), sub=[1, 2]), cols=V("mr", "b", 2)))
    add("2d mr x cat+sub", "two_d", dict(rows=V("mr", "a", 2), cols=Vs("cat", "b", 2, (1,), sub=[1, 2])))
    add("percentages of differences (slice)", "percentages_of_differences", dict())
    add("percentages of differences (strand)", "percentages_of_differences", dict(strand=True))
    add("1d cat", "one_d", dict(rows=V("cat", "a", 3, (1,))))
    add("1d cat+sub", "one_d", dict(rows=Vs("cat", "a", 3, (0,), sub=[1, 3])))
    add("1d mr", "one_d", dict(rows=V("mr", "a", 3)))
    # wire-level worlds (props/wire.py): one unknown per wire cell, larger sizes
    add("wire 2d mr3 x cat3", "two_d", dict(rows=V("mr", "a", 3), cols=V("cat", "b", 3, (1,)), wire=True))
    add("wire 2d cat3+sub x mr3", "two_d", dict(rows=Vs("cat", "a", 3, (0,), sub=[1, 3]), cols=V("mr", "b", 3), wire=True))
    add("wire 2d mr3 x mr2", "two_d", dict(rows=V("mr", "a", 3), cols=V("mr", "b", 2), wire=True))
    if tier == "thorough":
        add("wire 2d cat5+2sub x cat5+2sub", "two_d", dict(rows=Vs("cat", "a", 5, (2,), sub=[1, 4], sub2=[2, 3, 5]), cols=Vs("cat", "b", 5, (0, 3), sub=[2, 3], sub2=[1, 5]), wire=True), max_paths=400)
        add("wire 2d mr5 x cat4+sub", "two_d", dict(rows=V("mr", "a", 5), cols=Vs("cat", "b", 4, (1,), sub=[1, 2]), wire=True), max_paths=400)
        add("wire 2d cat4+sub x mr5", "two_d", dict(rows=Vs("cat", "a", 4, (4,), sub=[2, 4]), cols=V("mr", "b", 5), wire=True), max_paths=400)
        add("wire 2d mr4 x mr4", "two_d", dict(rows=V("mr", "a", 4), cols=V("mr", "b", 4), wire=True), max_paths=400)
        add("wire 2d mr3 x mr3 unweighted", "two_d", dict(rows=V("mr", "a", 3), cols=V("mr", "b", 3), wire=True, weighted=False), max_paths=400)
        add("wire 1d mr5", "one_d", dict(rows=V("mr", "a", 5), wire=True))
        add("wire 1d cat6+2sub", "one_d", dict(rows=Vs("cat", "a", 6, (2, 5), sub=[1, 6], sub2=[2, 3, 4]), wire=True))
        add("2d cat3 x cat3", "two_d", dict(rows=V("cat", "a", 3, (1,)), cols=V("cat", "b", 3, (0, 2))), max_paths=400)
        add("2d cat3+sub x cat3+sub", "two_d", dict(rows=Vs("cat", "a", 3, (3,), sub=[1, 3]), cols=Vs("cat", "b", 3, (0,), sub=[2, 3])), max_paths=400)
        add("2d cat3 x mr", "two_d", dict(rows=V("cat", "a", 3, (1,)), cols=V("mr", "b", 2)), max_paths=400)
        # "2d mr3 x cat" (81 answer patterns) leaves the sum-to-one VCs inconclusive in z3 within 30 s: not claimed
        add("2d ca 2x3", "two_d", dict(rows=V("ca", "a", (2, 3), (1,)), cols=None), max_paths=400)
        add("2d mr x mr unweighted", "two_d", dict(rows=V("mr", "a", 2), cols=V("mr", "b", 2), weighted=False), max_paths=400)
    return out
