"""C01 Cell values are faithful tabulations of the survey behind the response."""
import itertools

import numpy as np

from symx.harness import Obs
from symx.inject import SymList
from symx.scalar import Q

from cr.cube.cube import Cube

from . import common as C

META = {
    "title": "cell values = respondent-level tabulation",
    "bounds": {
        "quick": {"cat_valid": 2, "missing_positions": ["first", "middle", "last"], "mr_items": 2, "ca": "2 items x 2 cats",
                  "dims": "1-D, 2-D (all of CAT/MR squared, CA), 3-D (CAT/MR table)", "data": "all pattern masses m,u >= 0 (unbounded reals)"},
        "thorough": {"cat_valid": 3, "missing": "up to 2, all positions", "mr_items": "2 (3 in 1-D/2-D with CAT)", "ca": "2x3",
                     "dims": "1-D, 2-D, 3-D", "data": "all pattern masses m,u >= 0 (unbounded reals)"},
    },
    "assumptions": ["A1: pattern masses m[p] >= 0, u[p] >= 0 (independent of each other)",
                    "tabulator (symx/tab.py) models the backend's wire layout; floats treated as reals"],
    "outside": ["sizes beyond the bounds", "covariance measure", "numeric-array / datetime / text / binned dimensions (covered only through the fixture differential)"],
}


def _slice_obs(eng, world, part, tax, t, rax, cax, tag="", weighted=True):
    obs = []
    extra = None
    if tax is not None:
        extra = lambda p: tax.member(t, p)  # noqa: E731
    for weight, prop in (("m" if weighted else "u", "counts"), ("u", "unweighted_counts")):
        orc = [[world.mass(world.cell_pred(rax, i, cax, j, extra), weight) for j in range(len(cax))] for i in range(len(rax))]
        obs.append(Obs(tag + prop, getattr(part, prop), C.to_array(orc)))
    return obs


def two_d(eng, rows, cols, weighted=True):
    world = C.World(eng, [rows, cols] if cols is not None else [rows])
    cube = Cube(world.response(weighted=weighted))
    part = cube.partitions[0]
    _, rax, cax = C.slice_axes(world)
    obs = _slice_obs(eng, world, part, None, None, rax, cax, weighted=weighted)
    obs.append(Obs("shape", tuple(part.shape), (len(rax), len(cax)), kind="same"))
    return obs


def three_d(eng, table, rows, cols, k=0, weighted=True):
    world = C.World(eng, [table, rows, cols])
    cube = Cube(world.response(weighted=weighted))
    parts = cube.partitions
    tax, rax, cax = C.slice_axes(world)
    obs = [Obs("n_partitions", len(parts), len(tax), kind="same")]
    obs += _slice_obs(eng, world, parts[k], tax, k, rax, cax, tag="p%d." % k, weighted=weighted)
    return obs


def one_d(eng, rows, weighted=True):
    world = C.World(eng, [rows])
    cube = Cube(world.response(weighted=weighted))
    part = cube.partitions[0]
    rax = world.axes[0]
    obs = []
    for weight, prop in (("m" if weighted else "u", "counts"), ("u", "unweighted_counts")):
        orc = [world.mass(lambda p, i=i: rax.member(i, p), weight) for i in range(len(rax))]
        obs.append(Obs(prop, getattr(part, prop), C.to_array(orc)))
    return obs


def carried(eng, rows, cols, measure="mean", unavailable=((0, 1),), with_valid_counts=False):
    """numeric measures carried by the response: free reals per wire cell, {'?': -1} on `unavailable` wire cells"""
    world = C.World(eng, [rows, cols] if cols is not None else [rows], unweighted_concrete=3)
    resp = world.response(weighted=True)
    shape = ()
    for v in world.vars:
        shape += v.shape
    vals = np.empty(shape, dtype=object)
    for n, idx in enumerate(np.ndindex(shape)):
        vals[idx] = eng.real("x%d" % n)
    data = []
    for idx in np.ndindex(shape):
        data.append({"?": -1} if tuple(idx) in [tuple(u) for u in unavailable] else vals[idx])
    resp["result"]["measures"][measure] = {"data": SymList(data), "n_missing": 0,
                                           "metadata": {"derived": True, "references": {}, "type": {"class": "numeric", "integer": False}}}
    if with_valid_counts:
        vc = np.empty(shape, dtype=object)
        for n, idx in enumerate(np.ndindex(shape)):
            vc[idx] = eng.real("v%d" % n, lo=0)
        resp["result"]["measures"]["valid_count_unweighted"] = {"data": SymList(vc.reshape(-1).tolist()), "n_missing": 0,
                                                                "metadata": {"derived": True, "references": {}, "type": {"class": "numeric", "integer": False}}}
    cube = Cube(resp)
    part = cube.partitions[0]
    prop = {"mean": "means", "sum": "sums", "stddev": "stddev", "median": "medians"}[measure]

    def wire_index(axis_elems):
        # wire index of the cell of valid elements (MR: selected plane)
        idx = ()
        for ax, e in axis_elems:
            kind, k = ax.elems[e]
            if kind == "cat":
                idx += (k,)
            elif kind == "item":
                idx += (k, 0)
        return idx

    axes = world.axes
    nan = C.nan_like(eng)
    unav = [tuple(u) for u in unavailable]
    if len(axes) == 2:
        orc = [[(nan if wire_index([(axes[0], i), (axes[1], j)]) in unav else vals[wire_index([(axes[0], i), (axes[1], j)])])
                for j in range(len(axes[1]))] for i in range(len(axes[0]))]
    else:
        orc = [(nan if wire_index([(axes[0], i)]) in unav else vals[wire_index([(axes[0], i)])]) for i in range(len(axes[0]))]
    obs = [Obs(prop, getattr(part, prop), C.to_array(orc))]
    if with_valid_counts:
        if len(axes) == 2:
            o2 = [[vc[wire_index([(axes[0], i), (axes[1], j)])] for j in range(len(axes[1]))] for i in range(len(axes[0]))]
        else:
            o2 = [vc[wire_index([(axes[0], i)])] for i in range(len(axes[0]))]
        obs.append(Obs("unweighted_counts(valid counts)", part.unweighted_counts, C.to_array(o2)))
    return obs


def V(kind, alias, size, missing_at=(1,)):
    kw = {"missing_at": tuple(missing_at)} if kind in ("cat", "catdate", "ca") else {}
    return (kind, alias, size, kw)


def specs(tier):
    out = []
    M = "props.c01"

    def add(name, fn, params, max_paths=80):
        out.append(dict(module=M, fn=fn, name=name, params=params, max_paths=max_paths))

    miss_sets = [(0,), (1,), (2,)] if tier == "quick" else [(0,), (1,), (2,), (0, 2), (1, 2)]
    nv = 2
    # 2-D
    for ma in miss_sets:
        add("2d cat%s x cat" % (ma,), "two_d", dict(rows=V("cat", "a", nv, ma), cols=V("cat", "b", nv, (1,))))
        add("2d cat x cat%s" % (ma,), "two_d", dict(rows=V("cat", "a", nv, (2,)), cols=V("cat", "b", nv, ma)))
    add("2d cat x mr", "two_d", dict(rows=V("cat", "a", nv, (1,)), cols=V("mr", "b", 2)))
    add("2d mr x cat", "two_d", dict(rows=V("mr", "a", 2), cols=V("cat", "b", nv, (0,))))
    add("2d mr x mr", "two_d", dict(rows=V("mr", "a", 2), cols=V("mr", "b", 2)), max_paths=120)
    add("2d ca", "two_d", dict(rows=V("ca", "a", (2, 2), (1,)), cols=None))
    # an array whose categories look like a dichotomy (a 'selected' flag) but do not arrive as [1, 0, -1] is a categorical array
    add("2d ca with selected-flag cats in payload order 0,1,-1", "two_d",
        dict(rows=("ca", "a", (2, 2), {"cats": [(0, False), (1, False), (-1, True)], "selected_id": 1}), cols=None))
    add("2d ca with selected-flag cats in payload order -1,1,0", "two_d",
        dict(rows=("ca", "a", (2, 2), {"cats": [(-1, True), (1, False), (0, False)], "selected_id": 1}), cols=None))
    add("2d catdate x cat", "two_d", dict(rows=V("catdate", "a", nv, (0,)), cols=V("cat", "b", nv, (1,))))
    add("2d cat x cat unweighted", "two_d", dict(rows=V("cat", "a", nv, (1,)), cols=V("cat", "b", nv, (0,)), weighted=False))
    # 1-D
    for ma in miss_sets[:3]:
        add("1d cat%s" % (ma,), "one_d", dict(rows=V("cat", "a", 3, ma)))
    add("1d mr", "one_d", dict(rows=V("mr", "a", 3)))
    # 3-D, one scenario per partition
    for k in (0, 1):
        add("3d cat(1) x cat x cat p%d" % k, "three_d", dict(table=V("cat", "t", 2, (1,)), rows=V("cat", "a", 2, (0,)), cols=V("cat", "b", 2, (2,)), k=k))
        add("3d mr x cat x cat p%d" % k, "three_d", dict(table=V("mr", "t", 2), rows=V("cat", "a", 2, (1,)), cols=V("cat", "b", 2, (1,)), k=k), max_paths=120)
    add("3d cat x mr x cat p1", "three_d", dict(table=V("cat", "t", 2, (0,)), rows=V("mr", "a", 2), cols=V("cat", "b", 2, (1,)), k=1), max_paths=120)
    # carried measures
    for meas in ("mean", "sum", "stddev", "median"):
        add("carried %s cat x cat" % meas, "carried", dict(rows=V("cat", "a", 2, (1,)), cols=V("cat", "b", 2, (0,)), measure=meas, unavailable=[[0, 1], [2, 2]]))
    add("carried mean cat x mr", "carried", dict(rows=V("cat", "a", 2, (0,)), cols=V("mr", "b", 2), measure="mean", unavailable=[[1, 0, 0]]))
    add("carried mean 1d cat + valid counts", "carried", dict(rows=V("cat", "a", 3, (1,)), cols=None, measure="mean", unavailable=[[2]], with_valid_counts=True))
    add("carried sum cat x cat + valid counts", "carried", dict(rows=V("cat", "a", 2, (1,)), cols=V("cat", "b", 2, (2,)), measure="sum", unavailable=[[0, 0]], with_valid_counts=True))
    if tier == "thorough":
        for ma in [(0,), (1,), (3,), (0, 2), (1, 3)]:
            add("2d cat3%s x cat3" % (ma,), "two_d", dict(rows=V("cat", "a", 3, ma), cols=V("cat", "b", 3, (2,))), max_paths=300)
        add("2d cat3 x mr", "two_d", dict(rows=V("cat", "a", 3, (1,)), cols=V("mr", "b", 2)), max_paths=300)
        add("2d mr3 x cat", "two_d", dict(rows=V("mr", "a", 3), cols=V("cat", "b", 2, (1,))), max_paths=300)
        add("2d ca 2x3", "two_d", dict(rows=V("ca", "a", (2, 3), (1,)), cols=None), max_paths=300)
        add("3d cat(0,2) x cat x cat p1", "three_d", dict(table=V("cat", "t", 2, (0, 2)), rows=V("cat", "a", 2, (0,)), cols=V("cat", "b", 2, (2,)), k=1))
        add("3d cat x cat x mr p0", "three_d", dict(table=V("cat", "t", 2, (1,)), rows=V("cat", "a", 2, (1,)), cols=V("mr", "b", 2), k=0), max_paths=300)
    return out
