"""C01 Cell values are faithful tabulations of the survey behind the response."""
import itertools

import numpy as np

from symx.harness import Obs
from symx.inject import SymList
from symx.scalar import Q

from cr.cube.cube import Cube

from . import common as C

META = {
    "title": "cell values = respondent-level tabulation",
    "bounds": {
        "quick": {"cat_valid": 2, "missing_positions": ["first", "middle", "last"], "mr_items": 2, "ca": "2 items x 2 cats",
                  "dims": "1-D, 2-D (all of CAT/MR squared, CA), 3-D (CAT/MR table)", "fixtures": "12 repository fixtures with categorical / datetime / text / binned-numeric dimensions as templates (weighted counts and carried measures symbolic)", "data": "all pattern masses m,u >= 0 (unbounded reals)"},
        "thorough": {"cat_valid": 3, "missing": "up to 2, all positions", "mr_items": "2 (3 in 1-D/2-D with CAT)", "ca": "2x3",
                     "dims": "1-D, 2-D, 3-D", "data": "all pattern masses m,u >= 0 (unbounded reals)"},
    },
    "assumptions": ["A1: pattern masses m[p] >= 0, u[p] >= 0 (independent of each other)",
                    "tabulator (symx/tab.py) models the backend's wire layout; floats treated as reals"],
    "outside": ["sizes beyond the bounds", "covariance measure", "numeric arrays beyond the repository's fixture shapes (with and without a missing grouping category)"],
}


def _slice_obs(eng, world, part, tax, t, rax, cax, tag="", weighted=True):
    obs = []
    extra = None
    if tax is not None:
        extra = lambda p: tax.member(t, p)  # noqa: E731
    for weight, prop in (("m" if weighted else "u", "counts"), ("u", "unweighted_counts")):
        orc = [[world.mass(world.cell_pred(rax, i, cax, j, extra), weight) for j in range(len(cax))] for i in range(len(rax))]
        obs.append(Obs(tag + prop, getattr(part, prop), C.to_array(orc)))
    return obs


def two_d(eng, rows, cols, weighted=True):
    world = C.World(eng, [rows, cols] if cols is not None else [rows])
    cube = Cube(world.response(weighted=weighted))
    part = cube.partitions[0]
    _, rax, cax = C.slice_axes(world)
    obs = _slice_obs(eng, world, part, None, None, rax, cax, weighted=weighted)
    obs.append(Obs("shape", tuple(part.shape), (len(rax), len(cax)), kind="same"))
    return obs


def three_d(eng, table, rows, cols, k=0, weighted=True):
    world = C.World(eng, [table, rows, cols])
    cube = Cube(world.response(weighted=weighted))
    parts = cube.partitions
    tax, rax, cax = C.slice_axes(world)
    obs = [Obs("n_partitions", len(parts), len(tax), kind="same")]
    obs += _slice_obs(eng, world, parts[k], tax, k, rax, cax, tag="p%d." % k, weighted=weighted)
    return obs


def one_d(eng, rows, weighted=True):
    world = C.World(eng, [rows])
    cube = Cube(world.response(weighted=weighted))
    part = cube.partitions[0]
    rax = world.axes[0]
    obs = []
    for weight, prop in (("m" if weighted else "u", "counts"), ("u", "unweighted_counts")):
        orc = [world.mass(lambda p, i=i: rax.member(i, p), weight) for i in range(len(rax))]
        obs.append(Obs(prop, getattr(part, prop), C.to_array(orc)))
    return obs


def carried(eng, rows, cols, measure="mean", unavailable=((0, 1),), with_valid_counts=False):
    """numeric measures carried by the response: free reals per wire cell, {'?': -1} on `unavailable` wire cells"""
    world = C.World(eng, [rows, cols] if cols is not None else [rows], unweighted_concrete=3)
    resp = world.response(weighted=True)
    shape = ()
    for v in world.vars:
        shape += v.shape
    vals = np.empty(shape, dtype=object)
    for n, idx in enumerate(np.ndindex(shape)):
        vals[idx] = eng.real("x%d" % n)
    data = []
    for idx in np.ndindex(shape):
        data.append({"?": -1} if tuple(idx) in [tuple(u) for u in unavailable] else vals[idx])
    resp["result"]["measures"][measure] = {"data": SymList(data), "n_missing": 0,
                                           "metadata": {"derived": True, "references": {}, "type": {"class": "numeric", "integer": False}}}
    if with_valid_counts:
        vc = np.empty(shape, dtype=object)
        for n, idx in enumerate(np.ndindex(shape)):
            vc[idx] = eng.real("v%d" % n, lo=0)
        resp["result"]["measures"]["valid_count_unweighted"] = {"data": SymList(vc.reshape(-1).tolist()), "n_missing": 0,
                                                                "metadata": {"derived": True, "references": {}, "type": {"class": "numeric", "integer": False}}}
    cube = Cube(resp)
    part = cube.partitions[0]
    prop = {"mean": "means", "sum": "sums", "stddev": "stddev", "median": "medians"}[measure]

    def wire_index(axis_elems):
        # wire index of the cell of valid elements (MR: selected plane)
        idx = ()
        for ax, e in axis_elems:
            kind, k = ax.elems[e]
            if kind == "cat":
                idx += (k,)
            elif kind == "item":
                idx += (k, 0)
        return idx

    axes = world.axes
    nan = C.nan_like(eng)
    unav = [tuple(u) for u in unavailable]
    if len(axes) == 2:
        orc = [[(nan if wire_index([(axes[0], i), (axes[1], j)]) in unav else vals[wire_index([(axes[0], i), (axes[1], j)])])
                for j in range(len(axes[1]))] for i in range(len(axes[0]))]
    else:
        orc = [(nan if wire_index([(axes[0], i)]) in unav else vals[wire_index([(axes[0], i)])]) for i in range(len(axes[0]))]
    obs = [Obs(prop, getattr(part, prop), C.to_array(orc))]
    if with_valid_counts:
        if len(axes) == 2:
            o2 = [[vc[wire_index([(axes[0], i), (axes[1], j)])] for j in range(len(axes[1]))] for i in range(len(axes[0]))]
        else:
            o2 = [vc[wire_index([(axes[0], i)])] for i in range(len(axes[0]))]
        obs.append(Obs("unweighted_counts(valid counts)", part.unweighted_counts, C.to_array(o2)))
    return obs


def carried3(eng, table, rows, cols, measure="median", k=0):
    """a carried numeric measure in a 3-D cube: partition k shows, per cell, the wire value of (table element k, row, column);
    the selected plane stands for a multiple-response item in whichever of the three positions it sits"""
    world = C.World(eng, [table, rows, cols], unweighted_concrete=3)
    resp = world.response(weighted=True)
    shape = ()
    for v in world.vars:
        shape += v.shape
    vals = np.empty(shape, dtype=object)
    for n, idx in enumerate(np.ndindex(shape)):
        vals[idx] = eng.real("x%d" % n)
    resp["result"]["measures"][measure] = {"data": SymList(vals.reshape(-1).tolist()), "n_missing": 0,
                                           "metadata": {"derived": True, "references": {}, "type": {"class": "numeric", "integer": False}}}
    parts = Cube(resp).partitions
    prop = {"mean": "means", "sum": "sums", "stddev": "stddev", "median": "medians"}[measure]
    tax, rax, cax = C.slice_axes(world)

    def widx(ax, e):
        kind, j = ax.elems[e]
        return (j,) if kind == "cat" else (j, 0)

    orc = [[vals[widx(tax, k) + widx(rax, i) + widx(cax, j)] for j in range(len(cax))] for i in range(len(rax))]
    return [Obs("n_partitions", len(parts), len(tax), kind="same"),
            Obs("p%d.%s" % (k, prop), getattr(parts[k], prop), C.to_array(orc))]


def fixture_cells(eng, path):
    """a repository fixture whose dimensions are plain categorical / datetime / text / binned-numeric enums as configuration template:
    every weighted count (and carried mean / sum / stddev / median) of the response is symbolic; the head counts stay the fixture's.
    Oracle: the wire tensor restricted, per dimension, to the elements not flagged missing (own reading of the payload)."""
    import json
    raw = json.load(open(path))
    res = raw.get("value", raw)["result"]
    dims = res["dimensions"]
    shape, valid = [], []
    for d in dims:
        t = d["type"]
        els = t["categories"] if t["class"] == "categorical" else t["elements"]
        shape.append(len(els))
        valid.append([k for k, e in enumerate(els) if not e.get("missing")])
    shape = tuple(shape)
    n = int(np.prod(shape)) if shape else 1
    tensors = {}
    for mname, m in res["measures"].items():
        if mname not in ("count", "mean", "sum", "stddev", "median") or len(m["data"]) != n:
            continue
        data = []
        T = np.empty(shape, dtype=object)
        for k, idx in enumerate(np.ndindex(shape)):
            x = m["data"][k]
            if isinstance(x, dict):
                T[idx] = C.nan_like(eng)
                data.append(x)
            else:
                T[idx] = eng.real("%s%d" % (mname[:2], k), lo=0 if mname == "count" else None)
                data.append(T[idx])
        m["data"] = SymList(data)
        tensors[mname] = T
    if "count" in tensors and eng.symbolic:
        first = tuple(0 for _ in shape)
        eng.assume(Q.lift(tensors["count"][first]) != res["counts"][0], note="the cube is weighted (first weighted cell differs from its head count)")
    cube = Cube(raw)
    parts = cube.partitions
    obs = []
    prop = {"count": "counts", "mean": "means", "sum": "sums", "stddev": "stddev", "median": "medians"}
    if len(shape) == 3:
        obs.append(Obs("n_partitions", len(parts), len(valid[0]), kind="same"))
    for k, part in enumerate(parts[:3]):
        for mname, T in tensors.items():
            if len(shape) == 3:
                sub = T[valid[0][k]][np.ix_(valid[1], valid[2])]
            elif len(shape) == 2:
                sub = T[np.ix_(valid[0], valid[1])]
            else:
                sub = T[np.array(valid[0], dtype=int)]
            try:
                got = getattr(part, prop[mname])
            except ValueError:
                continue
            # base cells only (insertions of the fixture are C04's subject)
            br = [i for i in range(got.shape[0]) if i not in set(int(x) for x in part.inserted_row_idxs)]
            if got.ndim == 2:
                bc = [j for j in range(got.shape[1]) if j not in set(int(x) for x in part.inserted_column_idxs)]
                got = got[np.ix_(br, bc)]
            else:
                got = got[np.array(br, dtype=int)]
            obs.append(Obs("p%d.%s" % (k, prop[mname]), got, sub))
    return obs


def fixture_numarr(eng, path, no_missing=False):
    """numeric-array fixtures: the measure data has the sub-variable axis LAST in the payload and FIRST in the cube;
    every mean / sum / stddev / median and every valid count is symbolic. `no_missing`: the grouping variable has no
    missing category at all (its "No Data" category is a valid one)"""
    import json
    raw = json.load(open(path))
    res = raw.get("value", raw)["result"]
    dims = res["dimensions"]
    if no_missing:
        for c in dims[0]["type"].get("categories") or dims[0]["type"].get("elements"):
            c["missing"] = False
    # grouping dimension(s): none, one categorical, or a multiple-response pair (items, selected/other/missing)
    if len(dims) == 0:
        gshape, cells = (), [()]
    elif len(dims) == 1:
        cats = dims[0]["type"].get("categories") or dims[0]["type"].get("elements")
        gshape = (len(cats),)
        cells = [(k,) for k, c in enumerate(cats) if not c.get("missing")]
    else:
        nit = len(dims[0]["type"]["elements"])
        gshape = (nit, 3)
        cells = [(k, 0) for k in range(nit)]          # selected plane of each item
    tensors = {}
    nsub = None
    for mname, m in res["measures"].items():
        if mname not in ("mean", "sum", "stddev", "median", "valid_count_unweighted"):
            continue
        sub = m.get("metadata", {}).get("type", {}).get("subvariables")
        if not sub:
            continue
        nsub = len(sub)
        shape = gshape + (nsub,)
        flat = np.array(m["data"], dtype=object).reshape(-1).tolist() if not isinstance(m["data"][0], list) else [x for row in m["data"] for x in row]
        T = np.empty(shape, dtype=object)
        data = []
        for k, idx in enumerate(np.ndindex(shape)):
            x = flat[k]
            if isinstance(x, dict):
                T[idx] = C.nan_like(eng)
                data.append(x)
            else:
                T[idx] = eng.real("%s%d" % (mname[:2], k), lo=0 if mname in ("valid_count_unweighted", "stddev") else None)
                data.append(T[idx])
        m["data"] = SymList(data) if not isinstance(m["data"][0], list) else [SymList(data)]
        tensors[mname] = T
    part = Cube(raw).partitions[0]
    prop = {"mean": "means", "sum": "sums", "stddev": "stddev", "median": "medians", "valid_count_unweighted": "unweighted_counts"}
    obs = []
    for mname, T in tensors.items():
        if len(gshape) == 0:
            want = C.to_array([T[(s_,)] for s_ in range(nsub)])
        else:
            want = C.to_array([[T[c + (s_,)] for c in cells] for s_ in range(nsub)])
        try:
            got = getattr(part, prop[mname])
        except ValueError:
            continue
        if getattr(got, "ndim", 0) == 2:
            bc = [j for j in range(got.shape[1]) if j not in set(int(x) for x in part.inserted_column_idxs)]
            got = got[:, bc]
        obs.append(Obs(prop[mname], got, want))
    return obs


def numarr_3d(eng, measure="sum", nsub=2, nr=2, nc=3):
    """a numeric array grouped by TWO categorical variables: one slice per sub-variable, each a categorical x categorical table;
    the payload carries the sub-variable axis last"""
    def cat_dim(alias, n):
        return {"derived": False, "references": {"alias": alias, "name": alias},
                "type": {"ordinal": False, "class": "categorical",
                         "categories": [{"numeric_value": None, "id": i + 1, "name": "%s%d" % (alias, i + 1), "missing": False} for i in range(n)]}}
    subs = ["S%d" % (i + 1) for i in range(nsub)]
    meta = {"derived": True, "references": {"alias": "tickets", "name": "tickets", "subreferences": [{"alias": x, "name": x} for x in subs]},
            "type": {"class": "numeric", "subvariables": subs}}
    T = np.empty((nsub, nr, nc), dtype=object)
    for n, idx in enumerate(np.ndindex(T.shape)):
        T[idx] = eng.real("x%d" % n)
    payload = [T[s_, i, j] for i in range(nr) for j in range(nc) for s_ in range(nsub)]
    resp = {"result": {"dimensions": [cat_dim("R", nr), cat_dim("C", nc)], "counts": [5] * (nr * nc), "n": 5 * nr * nc,
                       "measures": {measure: {"data": SymList(payload), "n_missing": 0, "metadata": meta},
                                    "valid_count_unweighted": {"data": [5] * (nsub * nr * nc), "n_missing": 0, "metadata": meta}}}}
    parts = Cube(resp).partitions
    prop = {"mean": "means", "sum": "sums", "stddev": "stddev", "median": "medians"}[measure]
    obs = [Obs("n_partitions", len(parts), nsub, kind="same")]
    for k in range(min(nsub, len(parts))):
        want = np.empty((nr, nc), dtype=object)
        for i in range(nr):
            for j in range(nc):
                want[i, j] = T[k, i, j]
        obs.append(Obs("p%d.%s" % (k, prop), getattr(parts[k], prop), want))
    return obs


def nub(eng):
    """0-D cube: the mean and the unweighted count the response carries"""
    import json
    raw = json.load(open("/repo/tests/fixtures/econ-mean-no-dims.json"))
    res = raw.get("value", raw)["result"]
    mean = eng.real("mean")
    n = eng.real("n", lo=0)
    res["measures"]["mean"]["data"] = SymList([mean])
    res["counts"] = SymList([n])
    res["measures"]["count"]["data"] = SymList([n])
    part = Cube(raw).partitions[0]
    return [Obs("nub means", C.to_array([part.means]), C.to_array([mean])),
            Obs("nub unweighted_count", C.to_array([part.unweighted_count]), C.to_array([n]))]


def V(kind, alias, size, missing_at=(1,)):
    kw = {"missing_at": tuple(missing_at)} if kind in ("cat", "catdate", "ca") else {}
    return (kind, alias, size, kw)


def specs(tier):
    out = []
    M = "props.c01"

    def add(name, fn, params, max_paths=80):
        out.append(dict(module=M, fn=fn, name=name, params=params, max_paths=max_paths))

    miss_sets = [(0,), (1,), (2,)] if tier == "quick" else [(0,), (1,), (2,), (0, 2), (1, 2)]
    nv = 2
    # 2-D
    for ma in miss_sets:
        add("2d cat%s x cat" % (ma,), "two_d", dict(rows=V("cat", "a", nv, ma), cols=V("cat", "b", nv, (1,))))
        add("2d cat x cat%s" % (ma,), "two_d", dict(rows=V("cat", "a", nv, (2,)), cols=V("cat", "b", nv, ma)))
    add("2d cat x mr", "two_d", dict(rows=V("cat", "a", nv, (1,)), cols=V("mr", "b", 2)))
    add("2d mr x cat", "two_d", dict(rows=V("mr", "a", 2), cols=V("cat", "b", nv, (0,))))
    add("2d mr x mr", "two_d", dict(rows=V("mr", "a", 2), cols=V("mr", "b", 2)), max_paths=120)
    add("2d ca", "two_d", dict(rows=V("ca", "a", (2, 2), (1,)), cols=None))
    # an array whose categories look like a dichotomy (a 'selected' flag) but do not arrive as [1, 0, -1] is a categorical array
    add("2d ca with selected-flag cats in payload order 0,1,-1", "two_d",
        dict(rows=("ca", "a", (2, 2), {"cats": [(0, False), (1, False), (-1, True)], "selected_id": 1}), cols=None))
    add("2d ca with selected-flag cats in payload order -1,1,0", "two_d",
        dict(rows=("ca", "a", (2, 2), {"cats": [(-1, True), (1, False), (0, False)], "selected_id": 1}), cols=None))
    add("2d ca whose categories are coded 1, 0, -1 without any selected flag", "two_d",
        dict(rows=("ca", "a", (2, 2), {"cats": [(1, False), (0, False), (-1, True)]}), cols=None))
    add("2d catdate x cat", "two_d", dict(rows=V("catdate", "a", nv, (0,)), cols=V("cat", "b", nv, (1,))))
    add("2d cat x cat unweighted", "two_d", dict(rows=V("cat", "a", nv, (1,)), cols=V("cat", "b", nv, (0,)), weighted=False))
    # 1-D
    for ma in miss_sets[:3]:
        add("1d cat%s" % (ma,), "one_d", dict(rows=V("cat", "a", 3, ma)))
    add("1d mr", "one_d", dict(rows=V("mr", "a", 3)))
    # 3-D, one scenario per partition
    for k in (0, 1):
        add("3d cat(1) x cat x cat p%d" % k, "three_d", dict(table=V("cat", "t", 2, (1,)), rows=V("cat", "a", 2, (0,)), cols=V("cat", "b", 2, (2,)), k=k))
        add("3d mr x cat x cat p%d" % k, "three_d", dict(table=V("mr", "t", 2), rows=V("cat", "a", 2, (1,)), cols=V("cat", "b", 2, (1,)), k=k), max_paths=120)
    add("3d cat x mr x cat p1", "three_d", dict(table=V("cat", "t", 2, (0,)), rows=V("mr", "a", 2), cols=V("cat", "b", 2, (1,)), k=1), max_paths=120)
    # carried measures
    for meas in ("mean", "sum", "stddev", "median"):
        add("carried %s cat x cat" % meas, "carried", dict(rows=V("cat", "a", 2, (1,)), cols=V("cat", "b", 2, (0,)), measure=meas, unavailable=[[0, 1], [2, 2]]))
    add("carried mean cat x mr", "carried", dict(rows=V("cat", "a", 2, (0,)), cols=V("mr", "b", 2), measure="mean", unavailable=[[1, 0, 0]]))
    add("carried mean 1d cat + valid counts", "carried", dict(rows=V("cat", "a", 3, (1,)), cols=None, measure="mean", unavailable=[[2]], with_valid_counts=True))
    add("carried sum cat x cat + valid counts", "carried", dict(rows=V("cat", "a", 2, (1,)), cols=V("cat", "b", 2, (2,)), measure="sum", unavailable=[[0, 0]], with_valid_counts=True))
    FX = "/repo/tests/fixtures/"
    quick_fx = ["cat-x-cat.json", "cat-x-datetime.json", "cat-x-num-x-datetime.json", "datetime-x-cat-date.json", "num-x-num-empty.json", "text.json",
                "cat-x-cat-hs-missing.json", "mean-cat-x-cat.json", "cat-x-cat-all-missing-row-elements.json", "num-binned.json", "cat-date-mean.json", "txt-x-cat-date.json"]
    more_fx = ["admit-x-dept-unweighted.json", "cat-4-x-cat-5.json", "cat-hs-mt-x-cat-hs-mt.json", "cat-hs-x-cat-date.json", "cat-x-cat-date-wgtd.json", "cat-x-cat-german-weighted.json",
               "cat-x-cat-mean-wgtd.json", "cat-x-cat-with-empty-cols.json", "cat-x-date-hs-prune.json", "cat-x-logical.json", "cat-x-num-hs-prune.json", "date.json",
               "gender-x-weight.json", "means-cat-x-cat-hs.json", "median-cat-x-cat-hs.json", "missing-cat-hs.json", "pairwise-with-zero-margin.json", "scale-with-null-values.json",
               "squared-weights-cat-x-cat.json", "cat-stddev.json", "cat-sum.json", "cat-median.json", "econ-mean-age-blame-x-gender.json", "single-col-margin-not-iterable.json"]
    for f in quick_fx + (more_fx if tier == "thorough" else []):
        add("fixture " + f, "fixture_cells", dict(path=FX + f))
    na = ["num-arr-means-grouped-by-cat.json", "num-arr-means-no-grouping.json", "num-arr-means-x-mr.json", "num-arr-sum-grouped-by-cat.json", "num-arr-stddev-x-mr.json", "num-arr-median-grouped-by-cat.json"]
    na_more = ["num-arr-means-grouped-by-cat-hs.json", "num-arr-means-grouped-by-cat-date.json", "num-arr-means-grouped-by-date.json", "num-arr-sum-x-mr.json", "num-arr-stddev-grouped-by-cat.json",
               "num-arr-median-x-mr.json", "num-arr-multi-numeric-measures-grouped-by-cat.json", "num-arr-stddev-no-grouping.json", "num-arr-median-no-grouping.json"]
    for f in na + (na_more if tier == "thorough" else []):
        out.append(dict(module=M, fn="fixture_numarr", name="numeric array fixture " + f, params=dict(path=FX + "numeric_arrays/" + f), max_paths=1500))
    for f in ["num-arr-means-grouped-by-cat.json", "num-arr-sum-grouped-by-cat.json"] + (["num-arr-means-grouped-by-date.json", "num-arr-median-grouped-by-cat.json"] if tier == "thorough" else []):
        out.append(dict(module=M, fn="fixture_numarr", name="numeric array fixture " + f + " (grouping without a missing category)",
                        params=dict(path=FX + "numeric_arrays/" + f, no_missing=True), max_paths=1500))
    add("numeric array grouped by two categoricals (3-D), sums", "numarr_3d", dict())
    add("numeric array grouped by two categoricals (3-D), means", "numarr_3d", dict(measure="mean", nsub=3, nr=3, nc=2))
    add("0-D cube (nub)", "nub", dict())
    # carried measures in 3-D cubes, a multiple-response dimension in each of the three positions
    add("carried median 3d cat x mr x cat p1", "carried3", dict(table=V("cat", "t", 2, (0,)), rows=V("mr", "a", 2), cols=V("cat", "b", 2, (1,)), measure="median", k=1))
    add("carried mean 3d cat x cat x mr p0", "carried3", dict(table=V("cat", "t", 2, (1,)), rows=V("cat", "a", 2, (1,)), cols=V("mr", "b", 2), measure="mean", k=0))
    if tier == "thorough":
        add("carried median 3d mr x cat x cat p1", "carried3", dict(table=V("mr", "t", 2), rows=V("cat", "a", 2, (1,)), cols=V("cat", "b", 2, (0,)), measure="median", k=1))
        add("carried median 3d cat x cat x mr p1", "carried3", dict(table=V("cat", "t", 2, (1,)), rows=V("cat", "a", 2, (1,)), cols=V("mr", "b", 2), measure="median", k=1))
        add("carried stddev 3d cat x mr x cat p0", "carried3", dict(table=V("cat", "t", 2, (0,)), rows=V("mr", "a", 2), cols=V("cat", "b", 2, (1,)), measure="stddev", k=0))
        add("carried sum 3d cat x cat x cat p1", "carried3", dict(table=V("cat", "t", 2, (0,)), rows=V("cat", "a", 2, (2,)), cols=V("cat", "b", 2, (1,)), measure="sum", k=1))
    if tier == "thorough":
        for ma in [(0,), (1,), (3,), (0, 2), (1, 3)]:
            add("2d cat3%s x cat3" % (ma,), "two_d", dict(rows=V("cat", "a", 3, ma), cols=V("cat", "b", 3, (2,))), max_paths=300)
        add("2d cat3 x mr", "two_d", dict(rows=V("cat", "a", 3, (1,)), cols=V("mr", "b", 2)), max_paths=300)
        add("2d mr3 x cat", "two_d", dict(rows=V("mr", "a", 3), cols=V("cat", "b", 2, (1,))), max_paths=300)
        add("2d ca 2x3", "two_d", dict(rows=V("ca", "a", (2, 3), (1,)), cols=None), max_paths=300)
        add("3d cat(0,2) x cat x cat p1", "three_d", dict(table=V("cat", "t", 2, (0, 2)), rows=V("cat", "a", 2, (0,)), cols=V("cat", "b", 2, (2,)), k=1))
        add("3d cat x cat x mr p0", "three_d", dict(table=V("cat", "t", 2, (1,)), rows=V("cat", "a", 2, (1,)), cols=V("mr", "b", 2), k=0), max_paths=300)
    return out
