"""C19 Array items may be referenced by alias, sub-variable id or element id alike."""
import copy
import json

import numpy as np

from symx.harness import Obs
from symx.inject import SymList

from cr.cube.cube import Cube

from . import reflect as R
from .cellworld import CellWorld

META = {
    "title": "alias / sub-variable id / element id spellings",
    "bounds": {
        "quick": {"dimensions": "MR(3 items) as columns and as rows of a CAT x MR / MR x CAT slice and as an MR strand, CA(3 items); the repository fixtures mr_insertions/cat-x-mr.json (derived items) and numeric_arrays/num-arr-means-grouped-by-cat.json (zero-based element ids) as templates; a datetime dimension fixture",
                  "slots": "hide, rename, explicit order, fixed top / bottom under a sort, sort by opposing element", "spellings": "alias, sub-variable id, int element id, string element id, zero-based position (where it is no element id)",
                  "stale / malformed": "unknown alias, unknown number (int and string, incl. == number of items), empty string, negative number, None", "data": "all weighted counts symbolic"},
        "thorough": {"dimensions": "same", "slots": "same", "spellings": "same", "data": "same"},
    },
    "assumptions": ["no spelling of one item is a spelling of another item (unambiguous identifiers)", "weighted counts >= 0, head counts fixed"],
    "outside": ["symbolic (string-valued) identifiers", "ambiguous identifier schemas"],
}

ALIASES = ["alpha", "beta", "gamma"]
SUBIDS = ["0007", "0008", "0011"]
WATCH = ("column_labels", "row_labels", "counts", "column_proportions", "row_proportions", "shape")
STRAND_WATCH = ("row_labels", "counts", "table_proportions", "shape")


def spellings(k, with_position=True):
    sp = [k + 1, str(k + 1), ALIASES[k], SUBIDS[k]]
    return sp


def transform_for(slot, ref, dimkey, other_key):
    if slot == "hide":
        return {dimkey: {"elements": {ref: {"hide": True}}}}
    if slot == "rename":
        return {dimkey: {"elements": {ref: {"name": "RENAMED"}}}}
    if slot == "explicit":
        return {dimkey: {"order": {"type": "explicit", "element_ids": [ref]}}}
    if slot == "fixed_top":
        return {dimkey: {"order": {"type": "label", "direction": "descending", "fixed": {"top": [ref]}}}}
    if slot == "fixed_bottom":
        return {dimkey: {"order": {"type": "label", "direction": "ascending", "fixed": {"bottom": [ref]}}}}
    if slot == "opposing":
        return {other_key: {"order": {"type": "opposing_element", "element_id": ref, "measure": "count_weighted", "direction": "ascending"}}}
    raise ValueError(slot)


def _read(part, names):
    out = {}
    for n in names:
        out[n] = R.read(part, n)
    if hasattr(part, "row_order"):
        out["row_order"] = [int(i) for i in part.row_order()]
    if hasattr(part, "column_order") and part.ndim == 2:
        out["column_order"] = [int(i) for i in part.column_order()]
    return out


def _compare(tag, a, b):
    obs = []
    for k in a:
        obs += R.compare("%s %s" % (tag, k), a[k], b[k])
    return obs


def mr_slice(eng, slot, item, axis=1):
    mr = ("mr", "m", 3, {})
    cat = ("cat", "c", 2, {"missing_at": (1,)})
    w = CellWorld(eng, [cat, mr] if axis == 1 else [mr, cat])
    v = w.vars[axis if axis == 1 else 0]
    v.item_aliases = list(ALIASES)
    v.subvar_ids = list(SUBIDS)
    dimkey, other = ("columns_dimension", "rows_dimension") if axis == 1 else ("rows_dimension", "columns_dimension")
    base = None
    obs = []
    for ref in spellings(item):
        part = Cube(w.response(), transforms=transform_for(slot, ref, dimkey, other)).partitions[0]
        got = _read(part, WATCH)
        if base is None:
            base = got
            continue
        obs += _compare("%s by %r vs by id" % (slot, ref), got, base)
    if item == 0 and slot != "opposing":
        # a number that is no element id is a zero-based position: 0 names the first item
        part = Cube(w.response(), transforms=transform_for(slot, 0, dimkey, other)).partitions[0]
        obs += _compare("%s by position 0 vs by id" % slot, _read(part, WATCH), base)
    return obs


def mr_strand(eng, slot, item):
    w = CellWorld(eng, [("mr", "m", 3, {})])
    v = w.vars[0]
    v.item_aliases = list(ALIASES)
    v.subvar_ids = list(SUBIDS)
    base = None
    obs = []
    for ref in spellings(item):
        part = Cube(w.response(), transforms=transform_for(slot, ref, "rows_dimension", None)).partitions[0]
        got = _read(part, STRAND_WATCH)
        if base is None:
            base = got
            continue
        obs += _compare("%s by %r vs by id" % (slot, ref), got, base)
    return obs


def mixed_elements(eng, axis=1):
    """one elements dict that hides one item and renames another, the two referenced by different spellings, in both key orders"""
    mr = ("mr", "m", 3, {})
    cat = ("cat", "c", 2, {"missing_at": (1,)})
    w = CellWorld(eng, [cat, mr] if axis == 1 else [mr, cat])
    v = w.vars[axis if axis == 1 else 0]
    v.item_aliases = list(ALIASES)
    v.subvar_ids = list(SUBIDS)
    dimkey = "columns_dimension" if axis == 1 else "rows_dimension"
    base = _read(Cube(w.response(), transforms={dimkey: {"elements": {1: {"hide": True}, 3: {"name": "RENAMED"}}}}).partitions[0], WATCH)
    obs = []
    for a in spellings(0):
        for b in spellings(2):
            if type(a) is type(b) and not isinstance(a, str):
                continue
            for first in (0, 1):
                items = [(a, {"hide": True}), (b, {"name": "RENAMED"})]
                if first:
                    items.reverse()
                part = Cube(w.response(), transforms={dimkey: {"elements": dict(items)}}).partitions[0]
                obs += _compare("hide by %r + rename by %r (order %d) vs by ids" % (a, b, first), _read(part, WATCH), base)
    return obs


STALE = ["zzz", 99, "99", "", -4, -1, "-1", -2, "-3", "3x", 3, "3", None]      # 3 == number of items on a 0-based dimension is covered by the fixture scenario


def stale(eng, slot, axis=1):
    """references that match nothing are ignored rather than raising"""
    mr = ("mr", "m", 3, {})
    cat = ("cat", "c", 2, {"missing_at": (1,)})
    w = CellWorld(eng, [cat, mr] if axis == 1 else [mr, cat])
    v = w.vars[axis if axis == 1 else 0]
    v.item_aliases = list(ALIASES)
    v.subvar_ids = list(SUBIDS)
    dimkey, other = ("columns_dimension", "rows_dimension") if axis == 1 else ("rows_dimension", "columns_dimension")
    # the untouched analysis (for sorts: the same transform without the reference)
    def without(slot):
        t = transform_for(slot, "__none__", dimkey, other)
        d = t[dimkey if slot != "opposing" else other]
        if slot in ("hide", "rename"):
            return None
        if slot == "explicit":
            return None
        if slot in ("fixed_top", "fixed_bottom"):
            d["order"].pop("fixed")
            return t
        return None
    base = _read(Cube(w.response(), transforms=without(slot)).partitions[0], WATCH)
    obs = []
    for ref in STALE:
        if ref in (3, "3"):
            continue        # a real element id here
        part = Cube(w.response(), transforms=transform_for(slot, ref, dimkey, other)).partitions[0]
        obs += _compare("%s by stale %r vs untouched" % (slot, ref), _read(part, WATCH), base)
    return obs


def fixture_derived(eng, slot, item):
    """MR with derived (backend-inserted) item: fixture mr_insertions/cat-x-mr.json; items bool1..3 have ids 2..4, sub-variable ids 0004..0006"""
    raw = json.load(open("/repo/tests/fixtures/mr_insertions/cat-x-mr.json"))
    res = raw["result"]
    n = len(res["counts"])
    res["measures"]["count"]["data"] = SymList([eng.real("w%d" % k, lo=0) for k in range(n)])
    els = res["dimensions"][1]["type"]["elements"]
    el = els[item]
    refs = [el["id"], str(el["id"]), el["value"]["references"]["alias"], el["value"]["id"]]
    base = None
    obs = []
    for ref in refs:
        part = Cube(copy.deepcopy(raw) if False else raw, transforms=transform_for(slot, ref, "columns_dimension", "rows_dimension")).partitions[0]
        got = _read(part, WATCH)
        if base is None:
            base = got
            continue
        obs += _compare("%s by %r vs by id" % (slot, ref), got, base)
    return obs


def fixture_numarr_stale(eng, slot):
    """numeric array with zero-based element ids: a stale number equal to the number of items is ignored"""
    raw = json.load(open("/repo/tests/fixtures/numeric_arrays/num-arr-means-grouped-by-cat.json"))
    res = raw["result"]
    data = res["measures"]["mean"]["data"]
    res["measures"]["mean"]["data"] = SymList([x if isinstance(x, dict) else eng.real("x%d" % k) for k, x in enumerate(data)])
    part0 = Cube(raw).partitions[0]
    names = ("row_labels", "column_labels", "means", "shape")
    dimkey = "rows_dimension"
    base = _read(part0, names)
    obs = []
    for ref in (3, "3", 7, "zz"):
        t = transform_for(slot, ref, dimkey, "columns_dimension")
        if slot in ("fixed_top", "fixed_bottom"):
            continue
        part = Cube(raw, transforms=t).partitions[0]
        obs += _compare("%s by stale %r vs untouched" % (slot, ref), _read(part, names), base)
    return obs


def _datetime_template(eng, transpose):
    """tests/fixtures/cat-x-datetime.json reduced to CAT(2 valid + 1 missing) x DATETIME(3 valid + 1 missing), weighted counts symbolic"""
    raw = json.load(open("/repo/tests/fixtures/cat-x-datetime.json"))
    res = raw.get("value", raw)["result"]
    cdim, ddim = res["dimensions"]
    keep_c, keep_d = [0, 1, 4], [0, 1, 2, 4]
    full = np.array(res["counts"]).reshape(len(cdim["type"]["categories"]), len(ddim["type"]["elements"]))
    cdim["type"]["categories"] = [cdim["type"]["categories"][i] for i in keep_c]
    ddim["type"]["elements"] = [ddim["type"]["elements"][i] for i in keep_d]
    heads = full[np.ix_(keep_c, keep_d)] + 1
    W = np.empty(heads.shape, dtype=object)
    for n, idx in enumerate(np.ndindex(heads.shape)):
        W[idx] = eng.real("w%d" % n, lo=0)
    if transpose:
        res["dimensions"] = [ddim, cdim]
        heads, W = heads.T, W.T
    res["counts"] = [int(x) for x in heads.reshape(-1)]
    res["measures"]["count"]["data"] = SymList(list(W.reshape(-1)))
    values = [e["value"] for e in ddim["type"]["elements"] if not e.get("missing")]
    return raw, values


DT_WATCH = ("column_labels", "row_labels", "counts", "column_proportions", "shape")


def datetime_refs(eng, slot, item, transpose=False):
    """a datetime element referenced by position id (int or numeric string) or by its value"""
    dimkey, other = ("rows_dimension", "columns_dimension") if transpose else ("columns_dimension", "rows_dimension")
    base = None
    obs = []
    raw, values = _datetime_template(eng, transpose)
    for ref in (item, str(item), values[item]):
        part = Cube(copy.deepcopy(raw), transforms=transform_for(slot, ref, dimkey, other)).partitions[0]
        got = _read(part, DT_WATCH)
        if base is None:
            base = got
            continue
        obs += _compare("%s by %r vs by position id" % (slot, ref), got, base)
    # the reference is effective (the check is not vacuous): it differs from the untouched analysis in its order or labels
    return obs


def datetime_stale(eng, slot, transpose=False):
    dimkey, other = ("rows_dimension", "columns_dimension") if transpose else ("columns_dimension", "rows_dimension")
    raw, values = _datetime_template(eng, transpose)
    base = _read(Cube(copy.deepcopy(raw)).partitions[0], DT_WATCH)
    obs = []
    for ref in (99, "99", "1999-09-09T00:00:00", "zz"):
        part = Cube(copy.deepcopy(raw), transforms=transform_for(slot, ref, dimkey, other)).partitions[0]
        obs += _compare("%s by stale %r vs untouched" % (slot, ref), _read(part, DT_WATCH), base)
    return obs


def specs(tier):
    out = []
    M = "props.c19"

    def add(name, fn, params, max_paths=300):
        out.append(dict(module=M, fn=fn, name=name, params=params, max_paths=max_paths))

    slots = ["hide", "rename", "explicit", "fixed_top", "fixed_bottom", "opposing"]
    for slot in slots:
        for item in (0, 2) if tier == "quick" else (0, 1, 2):
            add("mr columns %s item %d" % (slot, item), "mr_slice", dict(slot=slot, item=item, axis=1))
        add("mr rows %s item 1" % slot, "mr_slice", dict(slot=slot, item=1, axis=0))
        add("stale refs %s (mr columns)" % slot, "stale", dict(slot=slot, axis=1))
    add("mr columns: hide and rename in one dict, mixed spellings", "mixed_elements", dict(axis=1))
    add("mr rows: hide and rename in one dict, mixed spellings", "mixed_elements", dict(axis=0))
    for slot in ("hide", "rename", "explicit"):
        add("mr strand %s item 2" % slot, "mr_strand", dict(slot=slot, item=2))
        add("stale refs %s (mr rows)" % slot, "stale", dict(slot=slot, axis=0))
        add("fixture derived MR %s item 1 (bool1)" % slot, "fixture_derived", dict(slot=slot, item=1))
        add("fixture derived MR %s item 3 (bool3)" % slot, "fixture_derived", dict(slot=slot, item=3))
        add("fixture numeric array stale refs %s" % slot, "fixture_numarr_stale", dict(slot=slot))
    for slot in slots:
        add("datetime columns %s element 1" % slot, "datetime_refs", dict(slot=slot, item=1))
        add("datetime rows %s element 2" % slot, "datetime_refs", dict(slot=slot, item=2, transpose=True))
        if tier == "thorough":
            add("datetime columns %s element 0" % slot, "datetime_refs", dict(slot=slot, item=0))
            add("datetime rows %s element 0" % slot, "datetime_refs", dict(slot=slot, item=0, transpose=True))
    for slot in ("hide", "rename", "explicit"):
        add("datetime stale refs %s" % slot, "datetime_stale", dict(slot=slot))
    return out
