"""C17 Population estimates scale the right proportion by population and filter share."""
import numpy as np

from symx.harness import Obs
from symx.scalar import Q

from cr.cube.cube import Cube

from . import common as C
from .cellworld import CellWorld
from .c11 import D, S, elements, display_order

Z975 = 1.959964

META = {
    "title": "population estimates = proportion x population x filtered fraction",
    "bounds": {
        "quick": {"slice": "CAT(2) x CAT(2) with categorical-date on rows / columns / both / neither, one sum subtotal and one difference",
                  "strand": "CAT(3) and CAT_DATE(3) with a sum subtotal and a difference",
                  "filter statistics": "every shape: absent, new style, new style + cat-date flag, old style, old style with null / missing fields, empty dicts",
                  "data": "all counts >= 0, population >= 0 and all filter statistics symbolic reals (zero denominators included)"},
        "thorough": {"slice": "CAT(3) x CAT(3)", "strand": "CAT(4)", "filter statistics": "as quick", "data": "as quick"},
    },
    "assumptions": ["weighted counts >= 0, population >= 0, filter statistics >= 0", "1.959964 is the binary float constant of the library"],
    "outside": ["sizes beyond the bounds", "multiple-response dimensions (the proportions themselves are C03)"],
}

FILTER_SHAPES = ["absent", "new", "new_catdate", "old", "old_null_den", "old_missing", "new_empty_old_present", "catdate_flag_without_complete_stats"]


def filter_fields(eng, shape):
    """(result_extra dict, oracle fraction)"""
    nan = C.nan_like(eng)

    def frac(num, den):
        if eng.symbolic:
            if bool(Q.lift(den) == 0):
                return nan
            return Q.lift(num) / den
        return float("nan") if den == 0 else num / den

    if shape == "absent":
        return {}, (Q.lift(1) if eng.symbolic else 1.0)
    if shape in ("new", "new_catdate"):
        sel, oth, mis = eng.pyreal("f_sel", lo=0), eng.pyreal("f_oth", lo=0), eng.pyreal("f_mis", lo=0)
        fs = {"filtered_complete": {"weighted": {"selected": sel, "other": oth, "missing": mis},
                                    "unweighted": {"selected": 5, "other": 2, "missing": 0}},
              "filtered": {"weighted": {"selected": sel, "other": oth, "missing": mis}}}
        extra = {"filter_stats": fs, "filtered": {"weighted_n": eng.pyreal("f_fil", lo=0)}, "unfiltered": {"weighted_n": eng.pyreal("f_unf", lo=0)}}
        if shape == "new_catdate":
            fs["is_cat_date"] = True
            return extra, (Q.lift(1) if eng.symbolic else 1.0)
        return extra, frac(sel, sel + oth)
    if shape == "old":
        fil, unf = eng.pyreal("f_fil", lo=0), eng.pyreal("f_unf", lo=0)
        return {"filtered": {"weighted_n": fil, "unweighted_n": 10}, "unfiltered": {"weighted_n": unf, "unweighted_n": 12}}, frac(fil, unf)
    if shape == "old_null_den":
        fil = eng.pyreal("f_fil", lo=0)
        return {"filtered": {"weighted_n": fil}, "unfiltered": {"weighted_n": None}}, (Q.lift(1) if eng.symbolic else 1.0)
    if shape == "old_missing":
        return {"filtered": {}, "unfiltered": {}}, (Q.lift(1) if eng.symbolic else 1.0)
    if shape == "catdate_flag_without_complete_stats":
        # the flag only matters together with complete-case statistics; without them the old-style ratio applies
        fil, unf = eng.pyreal("f_fil", lo=0), eng.pyreal("f_unf", lo=0)
        return {"filter_stats": {"is_cat_date": True}, "filtered": {"weighted_n": fil}, "unfiltered": {"weighted_n": unf}}, frac(fil, unf)
    if shape == "new_empty_old_present":
        fil, unf = eng.pyreal("f_fil", lo=0), eng.pyreal("f_unf", lo=0)
        return {"filter_stats": {"filtered_complete": {"weighted": {}}}, "filtered": {"weighted_n": fil}, "unfiltered": {"weighted_n": unf}}, frac(fil, unf)
    raise ValueError(shape)


def _scale(A, k):
    out = np.empty(A.shape, dtype=object)
    b = A.view(np.ndarray)
    for idx in np.ndindex(A.shape):
        out[idx] = b[idx] * k
    return out


def slice_pop(eng, rows_date=False, cols_date=False, shape="new", n=2, ins=True):
    # the difference is declared first but displayed last: display order differs from declaration order
    rins = [D("rd", [1], [2]), S("r12", [1, 2], anchor="top")] if ins else []
    cins = [D("cd", [2], [1], anchor="bottom"), S("c12", [1, 2], anchor=1)] if ins else []
    w = CellWorld(eng, [("catdate" if rows_date else "cat", "a", n, {"missing_at": (1,), "insertions": rins}),
                        ("catdate" if cols_date else "cat", "b", n, {"missing_at": (0,), "insertions": cins})])
    extra, f = filter_fields(eng, shape)
    P = eng.pyreal("P", lo=0)
    part = Cube(w.response(result_extra=extra), population=P).partitions[0]
    direction = "row" if rows_date else ("column" if cols_date else "table")
    prop = getattr(part, direction + "_proportions")
    se = getattr(part, direction + "_std_err")
    nan = C.nan_like(eng)
    cnt = _scale(_scale(prop, P), f)
    # which displayed rows / columns are differences is derived from the insertion definitions, not from the library
    rb, ri = elements(w, 0)
    cb, ci = elements(w, 1)
    drows = tuple(i for i, (sg, diff) in enumerate(display_order(w.vars[0], rb, ri)) if diff)
    dcols = tuple(j for j, (sg, diff) in enumerate(display_order(w.vars[1], cb, ci)) if diff)
    for i in drows:
        cnt[i, :] = nan
    for j in dcols:
        cnt[:, j] = nan
    moe = _scale(_scale(_scale(se, P), f), Z975)
    return [Obs("diff_row_idxs", tuple(int(i) for i in part.diff_row_idxs), drows, kind="same"),
            Obs("diff_column_idxs", tuple(int(i) for i in part.diff_column_idxs), dcols, kind="same"),
            Obs("population_fraction", C.to_array([part.population_fraction]), C.to_array([f])),
            Obs("population_counts", part.population_counts, cnt),
            Obs("population_counts_moe", part.population_counts_moe, moe)]


def strand_pop(eng, date=False, shape="new", n=3, two_diffs=False):
    ins = [D("d", [3], [1]), S("s12", [1, 2], anchor="top")]
    if two_diffs:
        # a sum between two differences, displayed out of definition order
        ins = [D("d3-1", [3], [1]), S("s12", [1, 2], anchor="top"), D("d2-13", [2], [1, 3], anchor=1)]
    w = CellWorld(eng, [("catdate" if date else "cat", "a", n, {"missing_at": (1,), "insertions": ins})])
    extra, f = filter_fields(eng, shape)
    P = eng.pyreal("P", lo=0)
    part = Cube(w.response(result_extra=extra), population=P).partitions[0]
    nan = C.nan_like(eng)
    L = len(part.table_proportions)
    if date:
        one = Q.lift(1) if eng.symbolic else 1.0
        zero = Q.lift(0) if eng.symbolic else 0.0
        prop = C.to_array([one] * L)
        se = C.to_array([zero] * L)
    else:
        prop, se = part.table_proportions, part.table_proportion_stderrs
    cnt = _scale(_scale(prop, P), f)
    rb, ri = elements(w, 0)
    drows = tuple(i for i, (sg, diff) in enumerate(display_order(w.vars[0], rb, ri)) if diff)
    for i in drows:
        cnt[i] = nan
    moe = _scale(_scale(_scale(se, P), f), Z975)
    return [Obs("diff_row_idxs", tuple(int(i) for i in part.diff_row_idxs), drows, kind="same"),
            Obs("population_fraction", C.to_array([part.population_fraction]), C.to_array([f])),
            Obs("population_counts", part.population_counts, cnt),
            Obs("population_counts_moe", part.population_counts_moe, moe)]


def specs(tier):
    out = []
    M = "props.c17"

    def add(name, fn, params, max_paths=100):
        out.append(dict(module=M, fn=fn, name=name, params=params, max_paths=max_paths, vc_timeouts=(5, 40)))

    n = 2 if tier == "quick" else 3
    for shape in FILTER_SHAPES:
        add("slice plain, filter %s" % shape, "slice_pop", dict(shape=shape, n=n, ins=(shape == "new")))
    for rd, cd in ((True, False), (False, True), (True, True)):
        add("slice dates rows=%s cols=%s" % (rd, cd), "slice_pop", dict(rows_date=rd, cols_date=cd, shape="new", n=n))
        add("slice dates rows=%s cols=%s old filter" % (rd, cd), "slice_pop", dict(rows_date=rd, cols_date=cd, shape="old", n=n, ins=False))
    for shape in ("absent", "new", "old", "new_catdate"):
        add("strand, filter %s" % shape, "strand_pop", dict(shape=shape, n=n + 1))
    add("strand with two differences and a sum", "strand_pop", dict(shape="new", n=3, two_diffs=True))
    add("date strand with two differences and a sum", "strand_pop", dict(date=True, shape="new", n=3, two_diffs=True))
    add("date strand, filter new", "strand_pop", dict(date=True, shape="new", n=n + 1))
    add("date strand, filter old", "strand_pop", dict(date=True, shape="old", n=n + 1))
    return out
