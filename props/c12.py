"""C12 Residual z-scores and p-values are adjusted standardized residuals."""
import numpy as np

from symx import inject
from symx.harness import Obs
from symx.scalar import Q

from cr.cube.cube import Cube

from . import common as C
from .cellworld import CellWorld
from .c01 import V

META = {
    "title": "z-scores = adjusted standardized residuals; p = 2(1-Phi(|z|))",
    "bounds": {
        "quick": {"cell level": "CAT x CAT 2x2, 2x3, 3x3, 1x3 (degenerate), with 0-1 sum subtotal per dimension",
                  "respondent level": "CAT x MR, MR x CAT (2 items), per-cell bases", "wire-cell level": "MR(2) x MR(2)", "data": "all weighted counts / pattern masses >= 0"},
        "thorough": {"cell level": "up to 3x4 with two subtotals", "respondent level": "CAT(3) x MR(2)", "wire-cell level": "MR(3) x MR(2), CAT(2) x MR(3), MR(2) x CAT(3) and CAT(3) x MR(2) with a subtotal", "data": "as quick"},
    },
    "assumptions": ["weighted counts >= 0; head counts fixed (z-scores do not mention them)",
                    "Phi is an uninterpreted function with the contract 0<=Phi<=1, Phi(x)>=1/2 for x>=0, equal arguments give equal values"],
    "stubs": ["scipy.stats.norm.cdf -> Ackermannised uninterpreted function", "np.linalg.matrix_rank -> exact rank (<2 iff all 2x2 minors vanish); LAPACK's SVD tolerance is outside the claim"],
    "outside": ["floating-point tolerance of matrix_rank", "difference subtotals (NaN by construction, C04)", "sizes beyond the bounds"],
}


def _defective(eng, cnt_base):
    """fewer than two linearly independent rows/columns among the base cells"""
    r, c = cnt_base.shape
    if r == 0 or c == 0:
        return True
    allzero = True
    for x in cnt_base.reshape(-1):
        allzero = allzero & (x == 0)
    if bool(allzero):
        return True
    rank1 = True
    for i in range(r):
        for j in range(i + 1, r):
            for k in range(c):
                for l in range(k + 1, c):
                    rank1 = rank1 & ((cnt_base[i, k] * cnt_base[j, l] - cnt_base[i, l] * cnt_base[j, k]) == 0)
    return bool(rank1)


def z_obs(eng, part, tag="", chi2=False):
    cnt = part.counts.view(np.ndarray)
    rb = part.row_weighted_bases.view(np.ndarray)
    cb = part.column_weighted_bases.view(np.ndarray)
    tb = part.table_weighted_bases.view(np.ndarray)
    nr, nc = cnt.shape
    ins_r = set(int(i) for i in part.inserted_row_idxs)
    ins_c = set(int(i) for i in part.inserted_column_idxs)
    base_r = [i for i in range(nr) if i not in ins_r]
    base_c = [j for j in range(nc) if j not in ins_c]
    base_cnt = np.empty((len(base_r), len(base_c)), dtype=object)
    for a, i in enumerate(base_r):
        for b, j in enumerate(base_c):
            base_cnt[a, b] = Q.lift(cnt[i, j]) if eng.symbolic else cnt[i, j]
    defective = _defective(eng, base_cnt)
    nan = C.nan_like(eng)
    Z = np.empty((nr, nc), dtype=object)
    for i in range(nr):
        for j in range(nc):
            if defective:
                Z[i, j] = nan
                continue
            c_, r_, k_, n_ = cnt[i, j], rb[i, j], cb[i, j], tb[i, j]
            E = C.div(r_ * k_, n_)
            var = E * (1 - C.div(r_, n_)) * (1 - C.div(k_, n_))
            Z[i, j] = C.div(c_ - E, C.sqrt(var))
    obs = [Obs(tag + "zscores", part.zscores, Z)]
    # p-values: two-sided normal tail of the reported z
    zi = part.zscores.view(np.ndarray)
    P = np.empty((nr, nc), dtype=object)
    for idx in np.ndindex(nr, nc):
        if eng.symbolic:
            P[idx] = (1 - inject._NormStub.cdf(abs(Q.lift(zi[idx])))) * 2
        else:
            import scipy.stats as st
            P[idx] = 2 * (1 - st.norm.cdf(abs(zi[idx])))
    obs.append(Obs(tag + "pvals", part.pvals, P))
    pin = np.empty((nr, nc), dtype=object)
    pv = part.pvals.view(np.ndarray)
    for idx in np.ndindex(nr, nc):
        x = pv[idx]
        pin[idx] = (Q.lift(x).isnan() | ((Q.lift(x) >= 0) & (Q.lift(x) <= 1))) if eng.symbolic else bool(np.isnan(x) or 0 <= x <= 1)
    obs.append(Obs(tag + "pvals in [0,1] or NaN", pin, kind="holds"))
    rts = part.residual_test_stats
    obs.append(Obs(tag + "residual_test_stats[0] is pvals", rts[0], part.pvals))
    obs.append(Obs(tag + "residual_test_stats[1] is zscores", rts[1], part.zscores))
    if chi2 and not defective and nr == 2 and nc == 2:
        # 2 x 2: z^2 equals the Pearson chi-square statistic sum (O - E)^2 / E
        N = tb[0, 0]
        chi = None
        for i in range(2):
            for j in range(2):
                E = C.div(rb[i, j] * cb[i, j], N)
                t = C.div((cnt[i, j] - E) * (cnt[i, j] - E), E)
                chi = t if chi is None else chi + t
        Z2 = np.empty((2, 2), dtype=object)
        for idx in np.ndindex(2, 2):
            Z2[idx] = zi[idx] * zi[idx]
        X2 = np.empty((2, 2), dtype=object)
        X2[...] = chi
        obs.append(Obs(tag + "z^2 == Pearson chi-square (2x2)", Z2, X2))
    return obs


def cat_x_cat(eng, nrows=2, ncols=2, row_ins=(), col_ins=(), chi2=False, strict=False):
    w = CellWorld(eng, [("cat", "a", nrows, {"missing_at": (1,), "insertions": list(row_ins)}),
                        ("cat", "b", ncols, {"missing_at": (0,), "insertions": list(col_ins)})], w_strict=strict)
    part = Cube(w.response()).partitions[0]
    return z_obs(eng, part, chi2=chi2)


def pattern(eng, rows, cols):
    world = C.World(eng, [rows, cols], unweighted_concrete=2)
    part = Cube(world.response(assume_weighted=True)).partitions[0]
    return z_obs(eng, part)


def cells(eng, rows, cols):
    """array pairings over free wire cells (each weighted wire cell its own unknown): per-cell bases"""
    w = CellWorld(eng, [rows, cols])
    part = Cube(w.response()).partitions[0]
    return z_obs(eng, part)


S = C.subtotal


def specs(tier):
    out = []
    M = "props.c12"

    def add(name, fn, params, max_paths=200):
        # path conditions such as "every z-score of the block is 0" are non-linear; z3 5.1's default arithmetic core can ignore its
        # timeout on them (nla monomial patching), the older core answers
        out.append(dict(module=M, fn=fn, name=name, params=params, max_paths=max_paths, vc_timeouts=(5, 40), feas_opts={"arith.solver": 2}))

    add("2x2 + chi-square", "cat_x_cat", dict(chi2=True))
    add("2x3", "cat_x_cat", dict(ncols=3))
    add("3x3", "cat_x_cat", dict(nrows=3, ncols=3))
    add("1x3 degenerate", "cat_x_cat", dict(nrows=1, ncols=3))
    add("2x3 + row subtotal", "cat_x_cat", dict(ncols=3, row_ins=[S("r12", [1, 2], anchor="top")]))
    add("3x2 + col subtotal spanning all + row subtotal", "cat_x_cat", dict(nrows=3, col_ins=[S("all", [1, 2])], row_ins=[S("r13", [1, 3], anchor=1)]))
    add("cat x mr", "pattern", dict(rows=V("cat", "a", 2, (1,)), cols=V("mr", "b", 2)))
    add("mr x cat", "pattern", dict(rows=V("mr", "a", 2), cols=V("cat", "b", 2, (0,))))
    add("mr x mr (wire cells)", "cells", dict(rows=("mr", "a", 2, {}), cols=("mr", "b", 2, {})))
    if tier == "thorough":
        add("3x4 two subtotals", "cat_x_cat", dict(nrows=3, ncols=4, row_ins=[S("r12", [1, 2])], col_ins=[S("c34", [3, 4], anchor="top")]))
        # MR x MR over answer-pattern masses (81 patterns) leaves the z-score VCs undecided; over free wire cells they are decided
        add("mr3 x mr2 (wire cells)", "cells", dict(rows=("mr", "a", 3, {}), cols=("mr", "b", 2, {})), max_paths=400)
        add("mr2 x cat3 + column subtotal (wire cells)", "cells", dict(rows=("mr", "a", 2, {}), cols=("cat", "b", 3, {"missing_at": (0,), "insertions": [S("c23", [2, 3])]})), max_paths=400)
        add("cat3 + row subtotal x mr2 (wire cells)", "cells", dict(rows=("cat", "a", 3, {"missing_at": (2,), "insertions": [S("r13", [1, 3], anchor="top")]}), cols=("mr", "b", 2, {})), max_paths=400)
        add("cat x mr3 (wire cells)", "cells", dict(rows=("cat", "a", 2, {"missing_at": (1,)}), cols=("mr", "b", 3, {})), max_paths=400)
        add("cat3 x mr", "pattern", dict(rows=V("cat", "a", 3, (1,)), cols=V("mr", "b", 2)), max_paths=400)
    return out
