"""C04 Subtotals behave as merged categories; differences as signed merges."""
import numpy as np

from symx import tab
from symx.harness import Obs
from symx.inject import SymList
from symx.scalar import Q

from cr.cube.cube import Cube

from . import common as C
from . import reflect as R
from .cellworld import CellWorld, insertion_terms
from .c11 import D, S, elements, display_order

META = {
    "title": "subtotals = merged categories; differences = signed merges",
    "bounds": {
        "quick": {"merge equivalence": "CAT(4, one missing in the middle) with one sum subtotal (addends incl. a stale id and a missing-category id, old 'args' and new 'kwargs' style, on the variable view or in the transforms) x CAT(2 with numeric values) | MR(2); every public 2-D / row-wise property at the subtotal's position against the response with the addends merged in the data; mirrored on columns",
                  "differences": "counts, own-direction NaN, difference x difference NaN, intersections; valid-count responses", "wave differences": "CAT_DATE(3) x CAT(2) and mirrored, strand; 1-1, multi-term (subtrahend first / later element)",
                  "data": "all weighted wire-tensor entries >= 0, population symbolic"},
        "thorough": {"merge equivalence": "two overlapping subtotals, CAT(4) x CAT(3)", "differences": "as quick", "wave differences": "as quick + CAT_DATE(4)", "data": "same"},
    },
    "assumptions": ["weighted counts >= 0; head counts fixed", "merging categories in the data = adding the corresponding planes of the wire tensor (C01 links planes to respondents)"],
    "outside": ["table proportion of a multi-term wave difference (reported as the plain signed merge over the table base; the statement's 'NaN in every proportion' is read as the row and column percentages)", "z-scores / p-values of a subtotal when merging makes the table rank deficient (C12 guard)", "derived MR / CA insertions computed by the backend (they are data, C01)", "differences with no valid addend", "sizes beyond the bounds"],
}

NON_ADDITIVE = ("column_index",)
SKIP_EQUIV = {"rows_scale_median", "columns_scale_median", "column_index", "smoothed_column_index", "means", "medians", "stddev", "sums", "smoothed_means",
              "column_share_sum", "row_share_sum", "total_share_sum", "pairwise_indices", "pairwise_indices_alt",
              "pairwise_means_indices", "pairwise_means_indices_alt", "payload_order", "row_codes", "column_codes",
              "row_labels", "column_labels", "row_aliases", "column_aliases", "rows_dimension_fills",
              "inserted_row_idxs", "inserted_column_idxs", "diff_row_idxs", "diff_column_idxs", "derived_row_idxs", "derived_column_idxs",
              "shape", "table_base_range", "table_margin_range"}


def merged_world(w, vi, addend_wire):
    """CellWorld where the categories `addend_wire` of variable vi are merged into one category (placed where the first addend sat)"""
    v = w.vars[vi]
    keep = [k for k in range(len(v.cats)) if k not in addend_wire[1:]]
    first = addend_wire[0]
    cats = [v.cats[k] for k in keep]
    nv = tab.Cat(v.alias, cats, dates=None, insertions=[], numeric_values=None)
    t = CellWorld.__new__(CellWorld)
    t.eng = w.eng
    t.vars = list(w.vars)
    t.vars[vi] = nv
    ax = sum(len(x.shape) for x in w.vars[:vi])

    def merge(T):
        planes = []
        for k in keep:
            sl = np.take(T, k, axis=ax)
            if k == first:
                for j in addend_wire[1:]:
                    sl = sl + np.take(T, j, axis=ax)
            planes.append(sl)
        return np.stack(planes, axis=ax)

    t.W = merge(w.W)
    t.U = merge(w.U)
    t.shape = t.W.shape
    t.weighted = w.weighted
    t.extra = {}
    for name, m in w.extra.items():
        # additive carried measures (squared weights) merge like the counts
        M = np.empty(w.shape, dtype=object)
        for idx, x in zip(np.ndindex(w.shape), m["data"]):
            M[idx] = x
        t.extra[name] = dict(m, data=SymList(merge(M).reshape(-1).tolist()))
    return t, keep.index(first)


def merge_equiv(eng, axis=0, other="cat", style="args", where="view", stale=True, strict=True, neg_stale=False, squared=False, repeat=False):
    """a subtotal without subtrahends == the merged category, for every measure defined for it"""
    ids = [1, 3] + ([99, -1] if stale else []) + ([3, 1] if repeat else [])
    ins = {"anchor": 2, "function": "subtotal", "name": "S13"}
    if style == "args":
        ins["args"] = ids
    else:
        ins["kwargs"] = {"positive": ids}
        if neg_stale:
            # subtrahend ids that are stale or missing contribute nothing: still a plain sum subtotal
            ins["kwargs"]["negative"] = [99, -1]
    sub_var = ("cat", "a", 4, {"missing_at": (2,), "insertions": [ins] if where == "view" else []})
    oth = ("cat", "b", 2, {"missing_at": (0,), "numeric_values": {1: 1, 2: 4}}) if other == "cat" else ("mr", "b", 2, {})
    specs = [sub_var, oth] if axis == 0 else [oth, sub_var]
    vi = 0 if axis == 0 else 1
    w = CellWorld(eng, specs, w_strict=strict)
    if squared:
        SQ = w.free_measure("weighted_squared_count", "q")
        for idx in np.ndindex(w.shape):
            if eng.symbolic:
                eng.assume(Q.lift(SQ[idx]) > 0)
    dimkey = "rows_dimension" if axis == 0 else "columns_dimension"
    tr = {dimkey: {"insertions": [dict(ins, id=1)]}} if where == "transforms" else None
    P = eng.pyreal("P", lo=0)
    A = Cube(w.response(), transforms=tr, population=P).partitions[0]
    v = w.vars[vi]
    addw = [k for k in v.valid if v.cats[k][0] in (1, 3)]
    wb, merged_pos_wire = merged_world(w, vi, addw)
    B = Cube(wb.response(assume_weighted=False), population=P).partitions[0]
    # display positions: A shows valid cats 1,2,[S],3,4 ; B shows M,2,4
    pos_S = 2
    pos_M = 0
    nA = 5
    obs = []
    ins_idx = tuple(int(i) for i in (A.inserted_row_idxs if axis == 0 else A.inserted_column_idxs))
    obs.append(Obs("inserted idxs", ins_idx, (pos_S,), kind="same"))

    def pick(M, pos, nvec):
        """the vector of the 2-D / 1-D output M belonging to display position pos of the subtotal's dimension"""
        if not isinstance(M, np.ndarray):
            return None
        if M.ndim == 2 and M.shape[axis] == nvec:
            return M[pos, :] if axis == 0 else M[:, pos]
        if M.ndim == 1 and M.shape[0] == nvec:
            return M[pos:pos + 1]
        return None

    nB = 3
    # merging can make the table rank deficient (then C12's guard blanks every z-score of the merged response): outside the claim
    from .c12 import _defective
    cb = B.counts.view(np.ndarray)
    zskip = set()
    if _defective(eng, np.array([[Q.lift(x) if eng.symbolic else x for x in row] for row in cb], dtype=object)):
        zskip = {"zscores", "pvals", "pvalues", "residual_test_stats"}
    for p in R.public_props(A):
        if p in SKIP_EQUIV or p in zskip or p.startswith("smoothed"):
            continue
        a = R.read(A, p)
        b = R.read(B, p)
        if isinstance(a, R.Raised) or isinstance(b, R.Raised):
            continue
        va, vb = pick(a, pos_S, nA), pick(b, pos_M, nB)
        if va is None or vb is None:
            continue
        if axis == 0 and isinstance(a, np.ndarray) and a.ndim == 1 and p.startswith("columns"):
            continue      # column-wise marginal that merely happens to have the right length
        if axis == 1 and isinstance(a, np.ndarray) and a.ndim == 1 and p.startswith("rows"):
            continue
        obs += R.compare("%s @subtotal" % p, va, vb)
    # pairwise t / p: subtotal column as selected and as compared column (columns axis only) / subtotal row (rows axis)
    if other == "cat":
        if axis == 1:
            tA = A.pairwise_significance_t_stats(pos_S)
            tB = B.pairwise_significance_t_stats(pos_M)
            # compare against the other base columns: A cols (1,2,S,3,4) -> positions of 2 and 4 are 1 and 4 ; B cols (M,2,4) -> 1, 2
            obs += R.compare("pairwise t, subtotal selected", tA[:, [1, 4]], tB[:, [1, 2]])
            pA = A.pairwise_significance_p_vals(1)
            pB = B.pairwise_significance_p_vals(1)
            obs += R.compare("pairwise p, subtotal compared", pA[:, [pos_S]], pB[:, [pos_M]])
        else:
            tA = A.pairwise_significance_t_stats(0)
            tB = B.pairwise_significance_t_stats(0)
            obs += R.compare("pairwise t, subtotal row", tA[pos_S, :], tB[pos_M, :])
    # measures that cannot be added are NaN for the subtotal
    nan = C.nan_like(eng)
    ci = pick(A.column_index, pos_S, nA)
    obs.append(Obs("column_index @subtotal is NaN", ci, C.to_array([nan] * len(ci))))
    return obs


def nonadditive(eng, axis=0, measure="mean"):
    ins = [S("s12", [1, 2], anchor=1), D("d3-1", [3], [1])]
    sub_var = ("cat", "a", 3, {"missing_at": (1,), "insertions": ins})
    oth = ("cat", "b", 2, {"missing_at": (0,)})
    w = CellWorld(eng, [sub_var, oth] if axis == 0 else [oth, sub_var])
    w.free_measure(measure, "x")
    A = Cube(w.response()).partitions[0]
    prop = {"mean": "means", "median": "medians", "stddev": "stddev"}[measure]
    M = getattr(A, prop)
    nan = C.nan_like(eng)
    obs = []
    for pos in (A.inserted_row_idxs if axis == 0 else A.inserted_column_idxs):
        v = M[int(pos), :] if axis == 0 else M[:, int(pos)]
        obs.append(Obs("%s @subtotal %d is NaN" % (prop, int(pos)), v, C.to_array([nan] * len(v))))
    return obs


def overlapping_difference(eng, strand=False):
    """a difference whose addend and subtrahend lists share an id: the shared category cancels ((c1 + c2) - c2 = c1),
    in base cells' columns, in a column subtotal (intersection) and on a strand"""
    rins = [D("r(1,2)-(2)", [1, 2], [2], anchor="top")]
    rows = ("cat", "a", 3, {"missing_at": (1,), "insertions": rins})
    cols = ("cat", "b", 2, {"missing_at": (0,), "insertions": [S("c12", [1, 2])]})
    w = CellWorld(eng, [rows] if strand else [rows, cols])
    part = Cube(w.response()).partitions[0]
    r1 = w.valid(0)[0]
    if strand:
        want = C.to_array([w.W[(r1,)]])
        return [Obs("counts of the difference row", part.counts[:1], want)]
    cv = w.valid(1)
    base = [w.W[r1, j] for j in cv]
    want = C.to_array(base + [base[0] + base[1]])
    return [Obs("counts of the difference row (base columns, column subtotal)", part.counts[0, :], want)]


def signed_counts(eng, valid_counts=False, other="cat"):
    """count of any subtotal = sum addends - sum subtrahends (stale / missing ids contribute nothing); intersections;
    own-direction base / proportion of a difference and difference x difference are NaN"""
    rins = [D("r(1,3)-(2,99)", [1, 3, -1], [2, 99], anchor="top"), S("r23", [2, 3])]
    cins = [D("c2-1", [2], [1]), S("c12", [1, 2, 77], anchor=1)] if other == "cat" else []
    rows = ("cat", "a", 3, {"missing_at": (1,), "insertions": rins})
    cols = ("cat", "b", 2, {"missing_at": (0,), "insertions": cins}) if other == "cat" else ("mr", "b", 2, {})
    w = CellWorld(eng, [rows, cols])
    if valid_counts:
        w.free_measure("mean", "x")
        VW = w.free_measure("valid_count_weighted", "vw", lo=0)
        w.free_measure("valid_count_unweighted", "vu", lo=0)
    A = Cube(w.response()).partitions[0]
    rb, ri = elements(w, 0)
    Rr = display_order(w.vars[0], rb, ri)
    if other == "cat":
        cb, ci = elements(w, 1)
        Cc = display_order(w.vars[1], cb, ci)
        src = VW if valid_counts else w.W

        def val(i, j):
            return src[i, j]
    else:
        Cc = [({j: 1}, False) for j in range(2)]
        src = VW if valid_counts else w.W

        def val(i, j):
            return src[i, j, 0]
    nan = C.nan_like(eng)
    zero = Q.lift(0) if eng.symbolic else 0.0
    cnt, rowp, colp = [], [], []
    for rsg, rdiff in Rr:
        rc, rr, rl = [], [], []
        for csg, cdiff in Cc:
            tot = zero
            for i, si in rsg.items():
                for j, sj in csg.items():
                    tot = tot + (val(i, j) if si * sj > 0 else -val(i, j))
            if valid_counts and (rdiff or cdiff):
                tot = nan           # a response carrying valid counts for a numeric measure: a difference's count is NaN
            if rdiff and cdiff:
                tot = nan
            rc.append(tot)
        cnt.append(rc)
    obs = [Obs("counts", A.counts, C.to_array(cnt))]
    if not valid_counts and other == "cat":
        # own-direction proportion and base of a difference are NaN
        rp, cp = A.row_proportions.view(np.ndarray), A.column_proportions.view(np.ndarray)
        rbs, cbs = A.row_weighted_bases.view(np.ndarray), A.column_weighted_bases.view(np.ndarray)
        for i, (rsg, rdiff) in enumerate(Rr):
            if rdiff:
                obs.append(Obs("row_proportions of difference row %d" % i, rp[i, :], C.to_array([nan] * len(Cc))))
                obs.append(Obs("row_weighted_bases of difference row %d" % i, rbs[i, :], C.to_array([nan] * len(Cc))))
        for j, (csg, cdiff) in enumerate(Cc):
            if cdiff:
                obs.append(Obs("column_proportions of difference column %d" % j, cp[:, j], C.to_array([nan] * len(Rr))))
                obs.append(Obs("column_weighted_bases of difference column %d" % j, cbs[:, j], C.to_array([nan] * len(Rr))))
        diff_r = tuple(i for i, (sg, d) in enumerate(Rr) if d)
        diff_c = tuple(j for j, (sg, d) in enumerate(Cc) if d)
        obs.append(Obs("diff_row_idxs", tuple(int(i) for i in A.diff_row_idxs), diff_r, kind="same"))
        obs.append(Obs("diff_column_idxs", tuple(int(i) for i in A.diff_column_idxs), diff_c, kind="same"))
    return obs


def wave_diff(eng, axis=0, pos=(2,), neg=(1,), n=3):
    """categorical-date dimension: a 1-1 difference reports the difference of the two percentages in its own direction,
    a difference with several terms on either side is NaN in every proportion"""
    ins = [D("wd", list(pos), list(neg))]
    date = ("catdate", "d", n, {"missing_at": (n,), "insertions": ins})
    oth = ("cat", "b", 2, {"missing_at": (0,)})
    w = CellWorld(eng, [date, oth] if axis == 0 else [oth, date], w_strict=False)
    A = Cube(w.response()).partitions[0]
    vi = 0 if axis == 0 else 1
    dv = w.vars[vi]
    ids = {dv.cats[k][0]: k for k in dv.valid}
    P = [ids[i] for i in pos]
    N = [ids[i] for i in neg]
    multi = len(P) > 1 or len(N) > 1
    ov = w.valid(1 - vi)
    nan = C.nan_like(eng)
    ipos = n      # bottom
    own, other_dir, table = [], [], []
    tot = None
    for k in dv.valid:
        for o in ov:
            x = w.W[(k, o) if axis == 0 else (o, k)]
            tot = x if tot is None else tot + x
    for o in ov:
        def cell(k):
            return w.W[(k, o) if axis == 0 else (o, k)]

        def base_own(k):
            # own-direction base of date element k = its total over the other dimension
            t = None
            for oo in ov:
                x = w.W[(k, oo) if axis == 0 else (oo, k)]
                t = x if t is None else t + x
            return t
        if multi:
            own.append(nan)
            other_dir.append(nan)
            sg = None
            for k in P:
                sg = cell(k) if sg is None else sg + cell(k)
            for k in N:
                sg = sg - cell(k)
            table.append(C.div(sg, tot))      # the table proportion stays the signed merge over the table base
            continue
        a, s = P[0], N[0]
        own.append(C.div(cell(a), base_own(a)) - C.div(cell(s), base_own(s)))
        # the other direction: plain signed merge over the common base (all date elements of that opposing element)
        b = None
        for k in dv.valid:
            b = cell(k) if b is None else b + cell(k)
        other_dir.append(C.div(cell(a) - cell(s), b))
        table.append(C.div(cell(a) - cell(s), tot))
    own_name, oth_name = ("row_proportions", "column_proportions") if axis == 0 else ("column_proportions", "row_proportions")

    def vec(M):
        b = M.view(np.ndarray)
        return b[ipos, :] if axis == 0 else b[:, ipos]
    return [Obs(own_name + " of the wave difference", vec(getattr(A, own_name)), C.to_array(own)),
            Obs(oth_name + " of the wave difference", vec(getattr(A, oth_name)), C.to_array(other_dir)),
            Obs("table_proportions of the wave difference", vec(A.table_proportions), C.to_array(table))]


def wave_diff_strand(eng, pos=(2,), neg=(1,), n=3):
    ins = [D("wd", list(pos), list(neg))]
    w = CellWorld(eng, [("catdate", "d", n, {"missing_at": (0,), "insertions": ins})])
    A = Cube(w.response()).partitions[0]
    dv = w.vars[0]
    ids = {dv.cats[k][0]: k for k in dv.valid}
    P = [ids[i] for i in pos]
    N = [ids[i] for i in neg]
    multi = len(P) > 1 or len(N) > 1
    nan = C.nan_like(eng)
    tot = None
    for k in dv.valid:
        tot = w.W[(k,)] if tot is None else tot + w.W[(k,)]
    if multi:
        orc = nan
    else:
        orc = C.div(w.W[(P[0],)], tot) - C.div(w.W[(N[0],)], tot)
    tp = A.table_proportions.view(np.ndarray)
    return [Obs("table_proportions of the wave difference", C.to_array([tp[n]]), C.to_array([orc]))]


def specs(tier):
    out = []
    M = "props.c04"

    def add(name, fn, params, max_paths=200):
        out.append(dict(module=M, fn=fn, name=name, params=params, max_paths=max_paths, vc_timeouts=(5, 40)))

    add("merge rows x cat (args, view, stale+missing ids)", "merge_equiv", dict(axis=0))
    add("merge cols x cat (kwargs, transforms)", "merge_equiv", dict(axis=1, style="kwargs", where="transforms"))
    add("merge rows x cat, stale/missing subtrahend ids", "merge_equiv", dict(axis=0, style="kwargs", neg_stale=True))
    add("merge cols x cat, stale/missing subtrahend ids", "merge_equiv", dict(axis=1, style="kwargs", neg_stale=True, where="transforms"))
    add("merge cols x cat with squared weights (effective base of the subtotal)", "merge_equiv", dict(axis=1, style="kwargs", squared=True, stale=False))
    add("merge rows x cat, ids repeated in the addend list", "merge_equiv", dict(axis=0, repeat=True))
    add("merge rows x mr", "merge_equiv", dict(axis=0, other="mr", style="kwargs"))
    add("merge cols, mr rows", "merge_equiv", dict(axis=1, other="mr", stale=False))
    add("merge rows x cat, zero counts allowed", "merge_equiv", dict(axis=0, style="kwargs", strict=False), max_paths=400)
    for meas in ("mean", "median", "stddev"):
        add("non-additive %s rows" % meas, "nonadditive", dict(axis=0, measure=meas))
    add("non-additive mean cols", "nonadditive", dict(axis=1, measure="mean"))
    add("signed counts, intersections, NaN rules", "signed_counts", dict())
    add("difference with an id on both sides (slice)", "overlapping_difference", dict())
    add("difference with an id on both sides (strand)", "overlapping_difference", dict(strand=True))
    add("signed counts with valid counts", "signed_counts", dict(valid_counts=True))
    add("signed counts x mr", "signed_counts", dict(other="mr"))
    for axis in (0, 1):
        add("wave diff 1-1 axis %d" % axis, "wave_diff", dict(axis=axis, pos=[3], neg=[2]))
        add("wave diff 1-1 first element subtracted axis %d" % axis, "wave_diff", dict(axis=axis, pos=[2], neg=[1]))
        add("wave diff multi-term axis %d" % axis, "wave_diff", dict(axis=axis, pos=[1, 3], neg=[2]))
        add("wave diff multi-term, only subtrahend is the first element axis %d" % axis, "wave_diff", dict(axis=axis, pos=[2, 3], neg=[1]))
    add("wave diff strand 1-1", "wave_diff_strand", dict(pos=[3], neg=[1]))
    add("wave diff strand multi-term, first element subtracted", "wave_diff_strand", dict(pos=[2, 3], neg=[1]))
    add("wave diff strand multi-term", "wave_diff_strand", dict(pos=[1], neg=[2, 3]))
    if tier == "thorough":
        add("merge rows x cat (kwargs, transforms, no stale)", "merge_equiv", dict(axis=0, style="kwargs", where="transforms", stale=False))
        add("merge cols x cat (args, view)", "merge_equiv", dict(axis=1))
        add("wave diff 4 dates multi", "wave_diff", dict(axis=1, pos=[4], neg=[1, 2], n=4))
    return out
