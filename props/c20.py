"""C20 Smoothing is a trailing moving average over categorical-date periods."""
import numpy as np

from symx.harness import Obs
from symx.scalar import Q

from cr.cube.cube import Cube

from . import common as C
from .cellworld import CellWorld
from .c14 import Vn

META = {
    "title": "smoothing = trailing moving average",
    "bounds": {
        "quick": {"periods": 4, "rows": "CAT(2) + one sum subtotal", "window": "symbolic integer over Z (all values), plus None",
                  "data": "all counts >= 0 / all real means with an enumerated NaN pattern"},
        "thorough": {"periods": 6, "rows": "CAT(2)+subtotal, CAT(3)", "window": "symbolic integer over Z, None", "data": "as quick"},
    },
    "assumptions": ["weighted counts >= 0; means arbitrary reals; which mean cells are unavailable is part of the configuration"],
    "outside": ["series longer than the bound", "smoothing functions other than one_sided_moving_avg (rejected by the library)"],
}


def trailing(eng, row, w, L):
    """oracle: NaN for t < w-1, else arithmetic mean of row[t-w+1 .. t]"""
    out = []
    for t in range(L):
        if t < w - 1:
            out.append(C.nan_like(eng))
        else:
            tot = None
            for k in range(t - w + 1, t + 1):
                tot = row[k] if tot is None else tot + row[k]
            out.append(tot / w)
    return out


def _window(eng, window):
    if window == "sym":
        return eng.int("win")
    return window


def _effective(eng, w, L, is_date):
    """window actually applied (python int) or None when the unsmoothed values must be returned.
    Decided through symbolic comparisons, so every class of w is covered."""
    if w is None:
        w = 2          # unspecified window: documented default
    if not is_date:
        return None
    if bool(w < 2) or bool(w > L):
        return None
    return int(w)


def slice_props(eng, L=4, window="sym", date=True, nrows=2, subtotal=True, with_values=True, none_at=(), wave_rows=False):
    w = _window(eng, window)
    ins = [C.subtotal("S", [1, 2])] if subtotal else []
    if wave_rows:
        # the rows are waves too, with a multi-term wave difference (its column proportions are undefined) and a 1-1 difference
        ins = [{"anchor": "bottom", "function": "subtotal", "name": "(2+3)-1", "kwargs": {"positive": [2, 3], "negative": [1]}},
               {"anchor": "top", "function": "subtotal", "name": "3-1", "kwargs": {"positive": [3], "negative": [1]}}]
    vals = [None if k in none_at else eng.real("v%d" % k) for k in range(nrows)] if with_values else None
    rows = Vn("a", nrows, (1,), vals, insertions=ins) if with_values else ("catdate" if wave_rows else "cat", "a", nrows, {"missing_at": (1,), "insertions": ins})
    cols = ("catdate" if date else "cat", "d", L, {"missing_at": (L,)})
    cw = CellWorld(eng, [rows, cols])
    tr = {"columns_dimension": {"smoother": {"function": "one_sided_moving_avg", "window": w}}}
    part = Cube(cw.response(), transforms=tr).partitions[0]
    plain = Cube(cw.response()).partitions[0]
    weff = _effective(eng, w, L, date)
    obs = []

    def rows_of(M):
        b = M.view(np.ndarray)
        return [[b[i, j] for j in range(b.shape[1])] for i in range(b.shape[0])]

    for sm, un, scale in (("smoothed_column_proportions", "column_proportions", 1), ("smoothed_column_percentages", "column_proportions", 100),
                          ("smoothed_column_index", "column_index", 1)):
        U = rows_of(getattr(plain, un))
        if weff is None:
            orc = [[x * scale for x in r] for r in U]
        else:
            orc = [[x * scale for x in trailing(eng, r, weff, L)] for r in U]
        obs.append(Obs(sm, getattr(part, sm), C.to_array(orc)))
    if with_values:
        # smoothed scale mean = scale mean of the smoothed column proportions (base rows only)
        U = rows_of(plain.column_proportions)[:nrows]
        S = U if weff is None else [trailing(eng, r, weff, L) for r in U]
        orc = []
        for j in range(L):
            num = den = None
            for i in range(nrows):
                if vals[i] is None:
                    continue      # categories without a numeric value do not take part in the scale mean
                t = S[i][j] * vals[i]
                num = t if num is None else num + t
                den = S[i][j] if den is None else den + S[i][j]
            orc.append(C.div(num, den))
        obs.append(Obs("smoothed_columns_scale_mean", part.smoothed_columns_scale_mean, C.to_array(orc)))
    return obs


def slice_means(eng, L=4, window="sym", date=True, unavailable=((0, 1),)):
    w = _window(eng, window)
    cw = CellWorld(eng, [("cat", "a", 2, {"missing_at": (2,)}), ("catdate" if date else "cat", "d", L, {"missing_at": (L,)})])
    cw.free_measure("mean", "x", unavailable=unavailable)
    tr = {"columns_dimension": {"smoother": {"function": "one_sided_moving_avg", "window": w}}}
    part = Cube(cw.response(), transforms=tr).partitions[0]
    plain = Cube(cw.response()).partitions[0]
    weff = _effective(eng, w, L, date)
    b = plain.means.view(np.ndarray)
    U = [[b[i, j] for j in range(b.shape[1])] for i in range(b.shape[0])]
    orc = U if weff is None else [trailing(eng, r, weff, L) for r in U]
    return [Obs("smoothed_means", part.smoothed_means, C.to_array(orc))]


def strand_means(eng, L=4, window="sym", date=True, unavailable=()):
    w = _window(eng, window)
    cw = CellWorld(eng, [("catdate" if date else "cat", "d", L, {"missing_at": (1,)})])
    cw.free_measure("mean", "x", unavailable=unavailable)
    tr = {"rows_dimension": {"smoother": {"function": "one_sided_moving_avg", "window": w}}}
    part = Cube(cw.response(), transforms=tr).partitions[0]
    plain = Cube(cw.response()).partitions[0]
    weff = _effective(eng, w, L, date)
    b = plain.means.view(np.ndarray)
    U = [b[i] for i in range(b.shape[0])]
    orc = U if weff is None else trailing(eng, U, weff, L)
    return [Obs("smoothed_means", part.smoothed_means, C.to_array(orc))]


def specs(tier):
    out = []
    M = "props.c20"

    def add(name, fn, params, max_paths=400):
        out.append(dict(module=M, fn=fn, name=name, params=params, max_paths=max_paths, vc_timeouts=(5, 40)))

    L = 4 if tier == "quick" else 6
    add("slice proportions/index/scale mean, symbolic window", "slice_props", dict(L=L))
    add("slice scale mean with a value-less category, symbolic window", "slice_props", dict(L=L, nrows=3, subtotal=False, none_at=[1]))
    add("slice proportions, rows are waves with wave differences, window 2", "slice_props", dict(L=L, window=2, nrows=3, with_values=False, wave_rows=True))
    add("slice proportions, window None", "slice_props", dict(L=L, window=None, with_values=False))
    add("slice proportions, not a date dimension", "slice_props", dict(L=L, date=False, with_values=False, window=2))
    add("slice means, symbolic window, NaN cells", "slice_means", dict(L=L, unavailable=[[0, 1], [1, L - 1]]))
    add("slice means, not a date dimension", "slice_means", dict(L=L, date=False, window=3))
    add("strand means, symbolic window", "strand_means", dict(L=L, unavailable=[[2]]))
    add("strand means, window None", "strand_means", dict(L=L, window=None))
    add("strand means, not a date dimension", "strand_means", dict(L=L, date=False, window=2))
    if tier == "thorough":
        add("slice proportions 3 rows no subtotal", "slice_props", dict(L=5, nrows=3, subtotal=False))
        add("slice means, symbolic window, no NaN", "slice_means", dict(L=L, unavailable=[]))
    return out
