"""C05 Display transforms only select and reorder; every output stays aligned."""
import numpy as np

from symx.harness import Obs
from symx.scalar import Q

from cr.cube.cube import Cube

from . import common as C
from . import reflect as R
from .cellworld import CellWorld
from .c11 import D, S

META = {
    "title": "transforms only select and reorder",
    "bounds": {
        "quick": {"tables": "CAT(3) x CAT(2) with numeric values, a sum subtotal and a difference on rows, a subtotal on columns; CAT(3) x MR(2); MR(2) x CAT(3); CAT(3) strand",
                  "transforms": "explicit order (with repeats and stale ids), payload, sort by opposing element / marginal / label with fixed top/bottom lists, hide flags, prune flags (symbolic head counts on a 2x2), combined on both dimensions",
                  "properties": "every public property of _Slice / _Strand (reflection) re-indexed by the reported row/column order",
                  "data": "all weighted counts >= 0; head counts fixed except in the prune scenarios"},
        "thorough": {"tables": "as quick + CAT(4) x CAT(3)", "transforms": "more combinations", "properties": "same", "data": "same"},
    },
    "assumptions": ["weighted counts >= 0"],
    "outside": ["pairwise index sets (C13 renumbers them)", "smoothing combined with reordering", "sizes beyond the bounds"],
}

POSITIONAL = {"inserted_row_idxs", "inserted_column_idxs", "diff_row_idxs", "diff_column_idxs", "derived_row_idxs", "derived_column_idxs"}
SKIP = {"pairwise_indices", "pairwise_indices_alt", "pairwise_means_indices", "pairwise_means_indices_alt", "payload_order", "shape",
        "rows_scale_median", "columns_scale_median", "is_empty", "row_count"}


def _is_rowwise(name):
    return name.startswith("row") or name in ("table_proportion_moes", "table_proportion_stddevs", "table_proportion_stderrs")


def equiv_obs(eng, T, U, strand=False):
    obs = []
    t_rows = [int(i) for i in T.row_order()]
    u_rows = [int(i) for i in U.row_order()]
    pos_r = {s: i for i, s in enumerate(u_rows)}
    obs.append(Obs("row_order has no duplicates", len(t_rows), len(set(t_rows)), kind="same"))
    obs.append(Obs("row_order is a selection of the untransformed order", [s for s in t_rows if s not in pos_r], [], kind="same"))
    rmap = [pos_r[s] for s in t_rows if s in pos_r]
    if strand:
        t_cols, cmap, u_cols = [], [], []
        obs.append(Obs("shape", tuple(T.shape), (len(t_rows),), kind="same"))
    else:
        t_cols = [int(i) for i in T.column_order()]
        u_cols = [int(i) for i in U.column_order()]
        pos_c = {s: i for i, s in enumerate(u_cols)}
        obs.append(Obs("column_order has no duplicates", len(t_cols), len(set(t_cols)), kind="same"))
        obs.append(Obs("column_order is a selection of the untransformed order", [s for s in t_cols if s not in pos_c], [], kind="same"))
        cmap = [pos_c[s] for s in t_cols if s in pos_c]
        obs.append(Obs("shape", tuple(T.shape), (len(t_rows), len(t_cols)), kind="same"))
    nru, ncu = len(u_rows), len(u_cols)
    for p in R.public_props(T):
        if p in SKIP or p.startswith("smoothed"):
            continue
        a = R.read(T, p)
        b = R.read(U, p)
        if isinstance(a, R.Raised) or isinstance(b, R.Raised):
            obs += R.compare(p, a, b)
            continue
        if p in POSITIONAL:
            # position-valued: renumbered through the order
            src = t_rows if "row" in p else t_cols
            umap = pos_r if "row" in p else pos_c
            ub = set(int(i) for i in b)
            exp = tuple(i for i, s in enumerate(src) if umap.get(s) in ub)
            obs.append(Obs(p, tuple(int(i) for i in a), exp, kind="same"))
            continue
        if isinstance(b, (tuple, list)) and isinstance(a, (tuple, list)) and len(b) in (nru, ncu) and p not in POSITIONAL:
            # label-like sequences (fills, ...) are re-indexed like vectors
            bb = np.empty(len(b), dtype=object)
            for i_, x_ in enumerate(b):
                bb[i_] = x_
            aa = np.empty(len(a), dtype=object)
            for i_, x_ in enumerate(a):
                aa[i_] = x_
            a, b = aa, bb
        if isinstance(b, np.ndarray) and b.ndim == 3 and not strand:
            obs += R.compare(p, a, b[:, rmap, :][:, :, cmap])
        elif isinstance(b, np.ndarray) and b.ndim == 2 and not strand and b.shape == (nru, ncu):
            obs += R.compare(p, a, b[np.ix_(rmap, cmap)])
        elif isinstance(b, np.ndarray) and b.ndim == 1 and (strand or b.shape[0] in (nru, ncu)) and p not in ("table_base_range", "table_margin_range"):
            if strand:
                use_rows = b.shape[0] == nru
                if not use_rows:
                    obs += R.compare(p, a, b)
                    continue
            elif nru != ncu:
                use_rows = b.shape[0] == nru
            else:
                use_rows = _is_rowwise(p)
            obs += R.compare(p, a, b[rmap] if use_rows else b[cmap])
        else:
            obs += R.compare(p, a, b)      # scalars, ranges, names: unchanged
    return obs


def V3(values=True):
    return ("cat", "a", 3, {"missing_at": (1,), "insertions": [S("r12", [1, 2], anchor=1), D("r3-1", [3], [1])],
                            "numeric_values": {1: 1, 2: 2, 3: 5} if values else None})


def V2(values=True):
    return ("cat", "b", 2, {"missing_at": (0,), "insertions": [S("c12", [1, 2], anchor="top")], "numeric_values": {1: 3, 2: 1} if values else None})


def slice_tr(eng, transforms, rows=None, cols=None, symbolic_u=False, strict=True):
    rows = rows or V3()
    cols = cols or V2()
    w = CellWorld(eng, [rows, cols], u_concrete=None if symbolic_u else 3, w_strict=strict)
    P = eng.pyreal("P", lo=0)
    U = Cube(w.response(), population=P).partitions[0]
    T = Cube(w.response(), transforms=transforms, population=P).partitions[0]
    return equiv_obs(eng, T, U)


def strand_tr(eng, transforms, rows=None, symbolic_u=False):
    rows = rows or V3()
    w = CellWorld(eng, [rows], u_concrete=None if symbolic_u else 3)
    P = eng.pyreal("P", lo=0)
    U = Cube(w.response(), population=P).partitions[0]
    T = Cube(w.response(), transforms=transforms, population=P).partitions[0]
    return equiv_obs(eng, T, U, strand=True)


MRB = ("mr", "b", 2, {})
MRA = ("mr", "a", 2, {})
CAT3B = ("cat", "b", 3, {"missing_at": (0,), "insertions": [S("c23", [2, 3])]})


def specs(tier):
    out = []
    M = "props.c05"

    def add(name, fn, params, max_paths=300):
        out.append(dict(module=M, fn=fn, name=name, params=params, max_paths=max_paths, vc_timeouts=(5, 40)))

    add("explicit rows (repeat, stale) + hide column", "slice_tr", dict(transforms={
        "rows_dimension": {"order": {"type": "explicit", "element_ids": [3, 1, 3, 99]}},
        "columns_dimension": {"elements": {"2": {"hide": True}}}}))
    add("hide row + explicit columns", "slice_tr", dict(transforms={
        "rows_dimension": {"elements": {"2": {"hide": True}}},
        "columns_dimension": {"order": {"type": "explicit", "element_ids": [2, 1]}}}))
    add("sort rows by opposing element desc, fixed bottom", "slice_tr", dict(transforms={
        "rows_dimension": {"order": {"type": "opposing_element", "element_id": 2, "measure": "col_percent", "direction": "descending", "fixed": {"bottom": [1]}}}}), max_paths=600)
    add("sort rows by row_percent, fixed bottom, empty rows possible (NaN sort keys)", "slice_tr", dict(
        rows=("cat", "a", 3, {"missing_at": (1,)}), cols=("cat", "b", 2, {"missing_at": (0,)}), strict=False, transforms={
            "rows_dimension": {"order": {"type": "opposing_element", "element_id": 1, "measure": "row_percent", "direction": "descending", "fixed": {"bottom": [2]}}}}), max_paths=1500)
    add("sort rows by opposing element, fixed lists with repeats and an id in both lists", "slice_tr", dict(transforms={
        "rows_dimension": {"order": {"type": "opposing_element", "element_id": 1, "measure": "count_weighted", "direction": "descending", "fixed": {"top": [3, 3], "bottom": [1, 3, 1]}}}}), max_paths=600)
    add("sort rows by marginal asc + hide column", "slice_tr", dict(transforms={
        "rows_dimension": {"order": {"type": "marginal", "marginal": "weighted_base", "direction": "ascending", "fixed": {"top": [3]}}},
        "columns_dimension": {"elements": {"1": {"hide": True}}}}), max_paths=600)
    add("sort rows by label + payload columns", "slice_tr", dict(transforms={
        "rows_dimension": {"order": {"type": "label", "direction": "descending"}}, "columns_dimension": {"order": {"type": "payload_order"}}}))
    add("prune both, symbolic head counts 2x2", "slice_tr", dict(
        rows=("cat", "a", 2, {"missing_at": (1,), "insertions": [S("r12", [1, 2])]}), cols=("cat", "b", 2, {"missing_at": (0,)}),
        transforms={"rows_dimension": {"prune": True}, "columns_dimension": {"prune": True}}, symbolic_u=True, strict=False), max_paths=1500)
    add("cat x mr: explicit rows + hide item", "slice_tr", dict(rows=V3(), cols=MRB, transforms={
        "rows_dimension": {"order": {"type": "explicit", "element_ids": [2, 3]}}, "columns_dimension": {"elements": {"1": {"hide": True}}}}))
    add("mr x cat: explicit items + hide column", "slice_tr", dict(rows=MRA, cols=CAT3B, transforms={
        "rows_dimension": {"order": {"type": "explicit", "element_ids": [2, 1]}}, "columns_dimension": {"elements": {"3": {"hide": True}}}}))
    add("strand explicit + hide", "strand_tr", dict(transforms={"rows_dimension": {"order": {"type": "explicit", "element_ids": [3, 2]}, "elements": {"1": {"hide": True}}}}))
    add("strand sort by measure", "strand_tr", dict(transforms={"rows_dimension": {"order": {"type": "univariate_measure", "measure": "count_weighted", "direction": "ascending", "fixed": {"top": [2]}}}}), max_paths=600)
    if tier == "thorough":
        add("explicit both + hide both", "slice_tr", dict(rows=V3(), cols=CAT3B, transforms={
            "rows_dimension": {"order": {"type": "explicit", "element_ids": [2, 1]}, "elements": {"3": {"hide": True}}},
            "columns_dimension": {"order": {"type": "explicit", "element_ids": [3, 2, 1]}, "elements": {"2": {"hide": True}}}}))
        add("sort columns by opposing insertion", "slice_tr", dict(rows=V3(), cols=CAT3B, transforms={
            "columns_dimension": {"order": {"type": "opposing_insertion", "insertion_id": 1, "measure": "count_weighted", "direction": "ascending"}}}), max_paths=1500)
    return out
