"""C09 Visibility: hidden iff asked, pruned iff empty by unweighted counts."""
import itertools

import numpy as np

from symx.harness import Obs
from symx.scalar import Q

from cr.cube.cube import Cube

from . import common as C
from .cellworld import CellWorld
from .c11 import S

META = {
    "title": "visibility = not hidden and not (prune and empty)",
    "bounds": {
        "quick": {"pairs": "CAT(2) x CAT(2), CAT(2) x MR(2), MR(2) x CAT(2), MR(2) x MR(2), CAT(3)/MR(2) strands; one bottom subtotal on CAT dimensions; a two-cube multitable whose second cube is a re-inflated single-column filter cube (text rows, 4 values)",
                  "flags": "prune on/off per dimension x one hidden element per dimension x hidden insertion", "data": "unweighted AND weighted wire tensors free and INDEPENDENT (all values >= 0)"},
        "thorough": {"pairs": "as quick with CAT(3)", "flags": "all hide subsets of size <= 1 per dimension x prune flags", "data": "same"},
    },
    "assumptions": ["unweighted counts u >= 0 and weighted counts w >= 0 are independent symbolic tensors (weights must play no part)"],
    "outside": ["derived MR items with explicit order (collator path, C07)", "sizes beyond the bounds"],
}


def _sum(xs):
    t = None
    for x in xs:
        t = x if t is None else t + x
    return t


def vector_base(w, vi, k):
    """unweighted base deciding emptiness of element k of variable vi (2-D world) per the property statement"""
    v, o = w.vars[vi], w.vars[1 - vi]
    U = w.U

    def idx(a, b):
        return a + b if vi == 0 else b + a
    terms = []
    if v.kind == "cat":
        own = [(k,)]
    else:
        # a multiple-response item: selected and not-selected answers count, except against another MR dimension
        own = [(k, 0), (k, 1)] if o.kind != "mr" else [(k, 0)]
    if o.kind == "cat":
        opp = [(j,) for j in o.valid]
    else:
        opp = [(j, p) for j in range(o.n) for p in (0, 1)]
    for a in own:
        for b in opp:
            terms.append(U[idx(a, b)])
    return _sum(terms)


def n_elems(v):
    return len(v.valid) if v.kind == "cat" else v.n


def wire_of(v, e):
    return v.valid[e] if v.kind == "cat" else e


def slice_vis(eng, rows, cols, prune=(True, True), hide=((), ()), hide_ins=(False, False)):
    w = CellWorld(eng, [rows, cols], u_concrete=None)
    tr = {}
    for d, key in ((0, "rows_dimension"), (1, "columns_dimension")):
        t = {"prune": bool(prune[d])}
        v = w.vars[d]
        if hide[d]:
            els = {}
            for e in hide[d]:
                eid = v.cats[v.valid[e]][0] if v.kind == "cat" else e + 1
                els[str(eid)] = {"hide": True}
            t["elements"] = els
        if hide_ins[d] and v.kind == "cat" and v.insertions:
            t["insertions"] = [dict(v.insertions[0], hide=True)]
        tr[key] = t
    part = Cube(w.response(), transforms=tr).partitions[0]
    empties = []
    for d in (0, 1):
        v = w.vars[d]
        em = []
        for e in range(n_elems(v)):
            b = vector_base(w, d, wire_of(v, e))
            em.append(bool(b == 0))       # forks: one path per emptiness pattern
        empties.append(em)
    orders = []
    for d in (0, 1):
        v = w.vars[d]
        vis = [e for e in range(n_elems(v)) if e not in hide[d] and not (prune[d] and empties[d][e])]
        has_ins = v.kind == "cat" and bool(v.insertions)
        opp = 1 - d
        all_opp_empty = all(empties[opp]) if empties[opp] else True
        if has_ins and not hide_ins[d] and not (prune[opp] and all_opp_empty):
            vis.append(-1)
        orders.append(vis)
    from cr.cube.enums import ORDER_FORMAT

    def ids(order):
        # the same order in the insertion-id rendering: base elements by index, the (only, id-less) insertion as ins_1
        return ["ins_1" if e < 0 else str(e) for e in order]
    obs = [Obs("row_order", [int(i) for i in part.row_order()], orders[0], kind="same"),
           Obs("column_order", [int(i) for i in part.column_order()], orders[1], kind="same"),
           Obs("row_order (insertion ids)", [str(i) for i in part.row_order(ORDER_FORMAT.BOGUS_IDS)], ids(orders[0]), kind="same"),
           Obs("column_order (insertion ids)", [str(i) for i in part.column_order(ORDER_FORMAT.BOGUS_IDS)], ids(orders[1]), kind="same"),
           Obs("shape", tuple(part.shape), (len(orders[0]), len(orders[1])), kind="same"),
           Obs("is_empty", bool(part.is_empty), len(orders[0]) == 0 or len(orders[1]) == 0, kind="same"),
           Obs("n row labels", len(part.row_labels), len(orders[0]), kind="same"),
           Obs("n column labels", len(part.column_labels), len(orders[1]), kind="same")]
    return obs


def fixture_mr_derived(eng, order=(3, 1, 2), hide=(1,), prune=True):
    """CAT x MR fixture with a derived (inserted by the backend) MR item, explicit column order, hide / prune on the derived item"""
    import json
    raw = json.load(open("/repo/tests/fixtures/mr_insertions/cat-x-mr.json"))
    res = raw["result"]
    n = len(res["counts"])
    from symx.inject import SymList
    # head counts are symbolic on the cells of the derived item (item 0), fixed to 2 elsewhere: rows are never empty,
    # the derived item is empty or not (the other 2^(rows+cols) emptiness patterns are covered by the tabulated scenarios)
    U = [eng.real("u%d" % k, lo=0) if (k // 3) % 4 == 0 else 2 for k in range(n)]
    Wt = [eng.real("w%d" % k, lo=0) for k in range(n)]
    res["counts"] = SymList(U)
    res["measures"]["count"]["data"] = SymList(Wt)
    tr = {"columns_dimension": {"prune": bool(prune), "order": {"type": "explicit", "element_ids": list(order)},
                                "elements": {str(e): {"hide": True} for e in hide}}}
    part = Cube(raw, transforms=tr).partitions[0]
    Ua = np.array(U, dtype=object).reshape(7, 4, 3)
    valid_rows = [0, 1, 2, 3, 5]
    visible = set()
    for j in range(4):
        base = _sum([Ua[i, j, p] for i in valid_rows for p in (0, 1)])
        empty = bool(base == 0)
        if (j + 1) not in hide and not (prune and empty):
            visible.add(j)
    got = [int(i) for i in part.column_order()]
    return [Obs("visible column elements", sorted(i for i in got if i >= 0), sorted(visible), kind="same"),
            Obs("no duplicates", len(got), len(set(got)), kind="same"),
            Obs("shape", int(part.shape[1]), len(got), kind="same")]


def strand_vis(eng, rows, prune=True, hide=()):
    w = CellWorld(eng, [rows], u_concrete=None)
    v = w.vars[0]
    t = {"prune": bool(prune)}
    if hide:
        t["elements"] = {str(v.cats[v.valid[e]][0] if v.kind == "cat" else e + 1): {"hide": True} for e in hide}
    part = Cube(w.response(), transforms={"rows_dimension": t}).partitions[0]
    em = []
    for e in range(n_elems(v)):
        if v.kind == "cat":
            b = w.U[(v.valid[e],)]
        else:
            b = w.U[(e, 0)] + w.U[(e, 1)]
        em.append(bool(b == 0))
    vis = [e for e in range(n_elems(v)) if e not in hide and not (prune and em[e])]
    if v.kind == "cat" and v.insertions:
        vis.append(-1)
    from cr.cube.enums import ORDER_FORMAT
    return [Obs("row_order", [int(i) for i in part.row_order()], vis, kind="same"),
            Obs("row_order (insertion ids)", [str(i) for i in part.row_order(ORDER_FORMAT.BOGUS_IDS)], ["ins_1" if e < 0 else str(e) for e in vis], kind="same"),
            Obs("shape", tuple(part.shape), (len(vis),), kind="same")]


def cubeset_filter_strand(eng, prune=True, hide=()):
    """multitable: a text variable on the rows, the second cube a weighted single-column filter cube that reports only the values
    somebody in the filter gave; the library re-inflates it to the summary cube's rows. Its rows are pruned iff their UNWEIGHTED
    count is zero (absent from the filter cube or present with N = 0), whatever the weights"""
    from cr.cube.cube import CubeSet
    from symx.inject import SymList

    def text_dim(values):
        els = [{"id": i, "missing": False, "value": v} for i, v in enumerate(values)]
        els.append({"id": -1, "missing": True, "value": {"?": -1}})
        return {"derived": False, "references": {"alias": "brand", "name": "brand"},
                "type": {"class": "enum", "elements": els, "subtype": {"class": "text", "missing_reasons": {"No Data": -1}, "missing_rules": {}}}}

    def resp(values, u, wgt, single):
        r = {"element": "crunch:cube", "dimensions": [text_dim(values)], "counts": SymList(list(u) + [0]),
             "measures": {"count": {"data": SymList(list(wgt) + [0]), "n_missing": 0,
                                    "metadata": {"derived": True, "references": {}, "type": {"class": "numeric", "integer": False}}}},
             "missing": 0, "n": 12}
        if single:
            r["is_single_col_cube"] = True
        return {"result": r}

    summary_values = ["Acme", "Bolt", "Crux", "Dyna"]
    filter_values = ["Bolt", "Crux", "Dyna"]
    su = [eng.intcount("su%d" % i) for i in range(4)]
    sw = [eng.real("sw%d" % i, lo=0) for i in range(4)]
    fu = [eng.intcount("fu%d" % i) for i in range(3)]
    fw = [eng.real("fw%d" % i, lo=0) for i in range(3)]
    rows_t = {"prune": bool(prune)}
    if hide:
        rows_t["elements"] = {str(i): {"hide": True} for i in hide}
    tr = [{"rows_dimension": dict(rows_t)}, {"rows_dimension": dict(rows_t)}]
    cs = CubeSet([resp(summary_values, su, sw, False), resp(filter_values, fu, fw, True)], tr, population=None, min_base=0)
    pset = cs.partition_sets[0]
    obs = []
    n_by_pos = {0: su, 1: dict((summary_values.index(v), fu[k]) for k, v in enumerate(filter_values))}
    for c in (0, 1):
        vis = []
        for pos in range(4):
            n = n_by_pos[c][pos] if c == 0 else n_by_pos[c].get(pos)
            empty = True if n is None else bool(Q.lift(n) == 0) if eng.symbolic else (n == 0)
            if pos in hide or (prune and empty):
                continue
            vis.append(pos)
        part = pset[c]
        obs.append(Obs("cube %d row_order" % c, [int(i) for i in part.row_order()], vis, kind="same"))
        obs.append(Obs("cube %d row_labels" % c, [str(x) for x in part.row_labels], [summary_values[i] for i in vis], kind="same"))
    return obs


def specs(tier):
    out = []
    M = "props.c09"

    def add(name, fn, params, max_paths=600):
        out.append(dict(module=M, fn=fn, name=name, params=params, max_paths=max_paths))

    cat_a = ("cat", "a", 2, {"missing_at": (1,), "insertions": [S("s", [1, 2])]})
    cat_b = ("cat", "b", 2, {"missing_at": (0,), "insertions": [S("t", [1, 2])]})
    mr_a = ("mr", "a", 2, {})
    mr_b = ("mr", "b", 2, {})
    pairs = [("cat x cat", cat_a, cat_b), ("cat x mr", cat_a, mr_b), ("mr x cat", mr_a, cat_b), ("mr x mr", mr_a, mr_b)]
    for nm, r, c in pairs:
        add("%s prune both" % nm, "slice_vis", dict(rows=r, cols=c, prune=[True, True]))
        add("%s prune rows only, hide col 0" % nm, "slice_vis", dict(rows=r, cols=c, prune=[True, False], hide=[[], [0]]))
        add("%s prune cols only, hide row 1" % nm, "slice_vis", dict(rows=r, cols=c, prune=[False, True], hide=[[1], []]))
        add("%s no prune, hide both" % nm, "slice_vis", dict(rows=r, cols=c, prune=[False, False], hide=[[0], [1]]))
    add("cat x cat prune both, hidden insertions", "slice_vis", dict(rows=cat_a, cols=cat_b, prune=[True, True], hide_ins=[True, True]))
    add("cat x cat prune both, hide + prune", "slice_vis", dict(rows=cat_a, cols=cat_b, prune=[True, True], hide=[[0], [0]]))
    add("cat strand prune", "strand_vis", dict(rows=("cat", "a", 3, {"missing_at": (1,), "insertions": [S("s", [1, 3])]}), prune=True, hide=[1]))
    add("cat strand no prune", "strand_vis", dict(rows=("cat", "a", 3, {"missing_at": (0,)}), prune=False, hide=[0]))
    add("fixture cat x mr with derived item: explicit order, derived item hidden", "fixture_mr_derived", dict(order=[3, 1, 2], hide=[1], prune=False))
    add("fixture cat x mr with derived item: explicit order, prune", "fixture_mr_derived", dict(order=[2, 1], hide=[], prune=True), max_paths=100)
    add("mr strand prune", "strand_vis", dict(rows=("mr", "a", 2, {}), prune=True))
    add("multitable: re-inflated single-column filter cube, prune", "cubeset_filter_strand", dict(prune=True))
    add("multitable: re-inflated single-column filter cube, prune + hide", "cubeset_filter_strand", dict(prune=True, hide=[3]))
    add("multitable: re-inflated single-column filter cube, no prune", "cubeset_filter_strand", dict(prune=False, hide=[1]))
    if tier == "thorough":
        cat3 = ("cat", "a", 3, {"missing_at": (1,), "insertions": [S("s", [1, 2])]})
        add("cat3 x cat prune both", "slice_vis", dict(rows=cat3, cols=cat_b, prune=[True, True]), max_paths=3000)
        add("cat3 x mr prune both, hide", "slice_vis", dict(rows=cat3, cols=mr_b, prune=[True, True], hide=[[2], []]), max_paths=3000)
    return out
