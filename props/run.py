"""CLI entry: python -m props.run <ID> [--tier quick|thorough] [--replay FILE] [--jobs N] [--only REGEX]"""
import argparse
import importlib
import os
import re
import sys

from symx import harness


def main():
    ap = argparse.ArgumentParser()
    ap.add_argument("prop")
    ap.add_argument("--tier", default=os.environ.get("VERIF_TIER", "quick"), choices=["quick", "thorough"])
    ap.add_argument("--replay")
    ap.add_argument("--jobs", type=int, default=None)
    ap.add_argument("--only", default=None, help="regex on scenario names (development aid)")
    a = ap.parse_args()
    prop = a.prop.upper()
    if a.replay:
        return harness.replay_file(a.replay)
    seed = int(os.environ.get("VERIF_SEED", "0") or 0)
    mod = importlib.import_module("props.%s" % prop.lower())
    specs = mod.specs(a.tier)
    if a.only:
        specs = [s for s in specs if re.search(a.only, s["name"])]
    meta = getattr(mod, "META", {})
    return harness.run_check(
        prop, specs, a.tier, seed, jobs=a.jobs,
        level=meta.get("level", "model_checking"),
        bounds=meta.get("bounds", {}).get(a.tier, meta.get("bounds")),
        extra_assumptions=meta.get("assumptions"),
        stubs=meta.get("stubs"),
        outside=meta.get("outside"),
        title=meta.get("title", ""),
    )


if __name__ == "__main__":
    sys.exit(main())
