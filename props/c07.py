"""C07 Anchored ordering: payload or explicit element order with subtotals at anchors."""
import itertools

import numpy as np

from symx.harness import Obs

from cr.cube.cube import Cube
from cr.cube.enums import ORDER_FORMAT

from .cellworld import CellWorld

META = {
    "title": "anchored ordering",
    "bounds": {
        "quick": {"dimension": "CAT with 3 valid categories (ids 1, 2, 5 in payload order 2, 5, 1) and a missing one; rows and columns; strand",
                  "insertions": "2-3 insertions; anchors: SYMBOLIC integers over Z (classes: each element id, the missing id, 'any other value'), plus 'top' / 'bottom' / 'TOP' / None and string spellings of ids; on the variable view (without ids) or in the transforms (with and without ids)",
                  "explicit order": "list of 2-3 SYMBOLIC integers over Z (permutations, repeats, stale ids arise as classes)", "hidden": "one hidden element (also as anchor)",
                  "renderings": "signed indexes and insertion ids ('ins_N')"},
        "thorough": {"dimension": "as quick + 4 valid categories", "insertions": "3 symbolic anchors", "explicit order": "3 symbolic ids", "hidden": "as quick"},
    },
    "assumptions": ["ids are integers (or their decimal string spelling); a symbolic id is compared only with the identifiers of the scenario (class-forking hash), so one path stands for every other value in Z"],
    "outside": ["derived multiple-response items with before/after anchors (one fixture scenario in C09)", "non-numeric anchors other than top/bottom", "sort-by-value orders (C08)"],
}

IDS = [2, 5, 1]          # payload order of the valid categories; -1 is the missing category
DOMAIN = [1, 2, 5, -1, 0]


def spec_order(anchors, explicit, hidden):
    """executable specification of the statement. anchors: list per insertion of 'top' | 'bottom' | id-like (symbolic ints fork on ==)
    explicit: list of id-likes or None; hidden: set of ids.  Returns signed display order."""
    n_ins = len(anchors)
    # base order: explicit ids first (first mention wins, unknown ignored), then the unlisted ones in payload order
    if explicit is None:
        base = list(IDS)
    else:
        base = []
        for x in explicit:
            for e in IDS:
                if e not in base and bool(x == e):
                    base.append(e)
                    break
        base += [e for e in IDS if e not in base]
    top, bottom, after = [], [], {e: [] for e in IDS}
    for k, a in enumerate(anchors):
        neg = k - n_ins
        if a == "top":
            top.append(neg)
            continue
        if a == "bottom":
            bottom.append(neg)
            continue
        placed = False
        for e in IDS:
            if bool(a == e):
                after[e].append(neg)
                placed = True
                break
        if not placed:
            bottom.append(neg)           # anchors that do not (or no longer) name a valid element go to the bottom
    out = list(top)
    for e in base:
        if e not in hidden:
            out.append(IDS.index(e))
        out += after[e]
    return out + bottom


def _norm_anchor(a):
    if isinstance(a, str):
        if a.lower() in ("top", "bottom"):
            return a.lower()
        return int(a)
    if a is None:
        return "bottom"
    return a


def run(eng, axis=0, anchors=("sym", "sym"), explicit=None, hidden=(), where="view", ids=False, strand=False, view_variant=None):
    """anchors: 'sym' -> symbolic int; otherwise literal; explicit: None | list of 'sym' / literal.
    view_variant (with where='transforms'): the variable ALSO carries insertions, which the analysis ones override -
    'reordered': the same insertions (same ids) in reverse definition order; 'other': insertions with other ids and anchors"""
    sym_anchors = []
    ins = []
    for k, a in enumerate(anchors):
        av = eng.int("anc%d" % k, domain=DOMAIN) if a == "sym" else a
        sym_anchors.append(av)
        d = {"anchor": av, "function": "subtotal", "name": "I%d" % k, "args": [IDS[k % 3], IDS[(k + 1) % 3]]}
        if ids:
            d["id"] = 10 + k
        ins.append(d)
    exp = None
    if explicit is not None:
        exp = [eng.int("exp%d" % k, domain=DOMAIN) if x == "sym" else x for k, x in enumerate(explicit)]
    view_ins = ins if where == "view" else []
    if view_variant == "reordered":
        view_ins = [dict(d) for d in reversed(ins)]
    elif view_variant == "other":
        view_ins = [{"anchor": "top", "function": "subtotal", "name": "V0", "args": [IDS[0]], "id": 20},
                    {"anchor": IDS[1], "function": "subtotal", "name": "V1", "args": [IDS[1], IDS[2]], "id": 21}]
    var = ("cat", "a", 3, {"missing_at": (3,), "insertions": view_ins, "cats": None})
    w = CellWorld(eng, [var] if strand else ([var, ("cat", "b", 2, {"missing_at": (0,)})] if axis == 0 else [("cat", "b", 2, {"missing_at": (0,)}), var]))
    # payload ids 2, 5, 1 instead of 1, 2, 3
    v = w.vars[0 if (strand or axis == 0) else 1]
    v.cats = [(2, False), (5, False), (1, False), (-1, True)]
    t = {}
    if where == "transforms":
        t["insertions"] = ins
    if exp is not None:
        t["order"] = {"type": "explicit", "element_ids": exp}
    if hidden:
        t["elements"] = {str(h): {"hide": True} for h in hidden}
    key = "rows_dimension" if (strand or axis == 0) else "columns_dimension"
    part = Cube(w.response(), transforms={key: t} if t else None).partitions[0]
    order_fn = part.row_order if (strand or axis == 0) else part.column_order
    got = [int(i) for i in order_fn()]
    want = spec_order([_norm_anchor(a) for a in sym_anchors], exp, set(hidden))
    obs = [Obs("display order (signed indexes)", got, want, kind="same")]
    # insertion-id rendering names the same sequence
    bogus = list(order_fn(format=ORDER_FORMAT.BOGUS_IDS))
    n_ins = len(anchors)
    if ids:
        idmap = {k - n_ins: "ins_%d" % (10 + k) for k in range(n_ins)}
    elif where == "view":
        # id-less insertions defined on the variable: numbered by 1-based rank in payload display order
        payload_display = spec_order([_norm_anchor(a) for a in sym_anchors], None, set())
        rank = [s for s in payload_display if s < 0]
        idmap = {s: "ins_%d" % (rank.index(s) + 1) for s in rank}
    else:
        # id-less insertions defined in the analysis: numbered by 1-based definition position
        idmap = {k - n_ins: "ins_%d" % (k + 1) for k in range(n_ins)}
    obs.append(Obs("display order (insertion ids)", [str(x) for x in bogus], [idmap[s] if s < 0 else str(s) for s in want], kind="same"))
    labels = list(part.row_labels if (strand or axis == 0) else part.column_labels)
    obs.append(Obs("labels follow the order", len(labels), len(want), kind="same"))
    return obs


def derived_mr(eng, explicit=("sym", "sym", "sym"), alias="bool1", position="before"):
    """derived multiple-response item (computed by the backend) with a before/after anchor, under an explicit order of symbolic ids"""
    import json
    raw = json.load(open("/repo/tests/fixtures/mr_insertions/cat-x-mr.json"))
    el = raw["result"]["dimensions"][1]["type"]["elements"]
    anchor = {"position": position, "alias": alias} if alias not in ("top", "bottom") else alias
    el[0]["value"]["references"]["anchor"] = anchor
    aliases = ["A_B", "bool1", "bool2", "bool3"]       # element ids 1..4 ; idx 0 is the derived item
    dom = [1, 2, 3, 4, 0, 9]
    exp = [eng.int("exp%d" % k, domain=dom) if x == "sym" else x for k, x in enumerate(explicit)]
    part = Cube(raw, transforms={"columns_dimension": {"order": {"type": "explicit", "element_ids": exp}}}).partitions[0]
    got = [int(i) for i in part.column_order()]
    # specification: base (non-derived) items in first-mention explicit order, the rest in payload order;
    # the derived item goes before / after its anchor item, to the top / bottom, or to the bottom when the anchor does not exist
    base_ids = [2, 3, 4]
    base = []
    for x in exp:
        for e in base_ids:
            if e not in base and bool(x == e):
                base.append(e)
                break
    base += [e for e in base_ids if e not in base]
    order = [e - 1 for e in base]
    if alias == "top":
        want = [0] + order
    elif alias in aliases[1:]:
        k = order.index(aliases.index(alias))
        want = order[:k] + [0] + order[k:] if position == "before" else order[:k + 1] + [0] + order[k + 1:]
    else:
        want = order + [0]
    return [Obs("column order with derived item", got, want, kind="same")]


def specs(tier):
    out = []
    M = "props.c07"

    def add(name, params, max_paths=3000):
        out.append(dict(module=M, fn="run", name=name, params=params, max_paths=max_paths))

    add("rows: two symbolic anchors, view, no ids", dict(anchors=["sym", "sym"]))
    add("rows: symbolic anchor + top + TOP + None, view", dict(anchors=["sym", "top", "TOP", None]))
    add("rows: symbolic anchors, transforms with ids", dict(anchors=["sym", "sym"], where="transforms", ids=True))
    add("rows: symbolic anchors, transforms without ids", dict(anchors=["sym", "bottom", "sym"], where="transforms"))
    add("rows: analysis insertions override the variable's (same ids, other definition order)", dict(anchors=["sym", "top", "sym"], where="transforms", ids=True, view_variant="reordered"))
    add("rows: analysis insertions override the variable's (other ids)", dict(anchors=["sym", "bottom"], where="transforms", ids=True, view_variant="other"))
    add("columns: id-less analysis insertions override the variable's", dict(axis=1, anchors=["sym", "sym"], where="transforms", view_variant="other"))
    add("rows: string-spelled anchors", dict(anchors=["5", "1", "99", "Bottom"]))
    add("rows: symbolic anchors with hidden anchor element", dict(anchors=["sym", "sym"], hidden=[5]))
    add("rows: explicit order of two symbolic ids + symbolic anchor", dict(anchors=["sym", "top"], explicit=["sym", "sym"]))
    add("rows: explicit order 3 symbolic ids, hidden element", dict(anchors=[1], explicit=["sym", "sym", "sym"], hidden=[2]))
    add("columns: two symbolic anchors + explicit symbolic id", dict(axis=1, anchors=["sym", "sym"], explicit=["sym", 1]))
    add("strand: symbolic anchors + explicit", dict(strand=True, anchors=["sym", "sym"], explicit=[1, "sym"]))
    add("strand: transforms insertions with ids, hidden", dict(strand=True, anchors=["sym", 2, "top"], where="transforms", ids=True, hidden=[1]))
    for alias, pos in (("bool1", "before"), ("bool3", "after"), ("bool2", "before"), ("gone", "after"), ("top", None), ("bottom", None)):
        out.append(dict(module=M, fn="derived_mr", name="derived MR item anchored %s %s, symbolic explicit order" % (pos, alias),
                        params=dict(alias=alias, position=pos), max_paths=3000))
    if tier == "thorough":
        add("rows: three symbolic anchors", dict(anchors=["sym", "sym", "sym"]), max_paths=20000)
        add("rows: three symbolic anchors + explicit of three symbolic ids", dict(anchors=["sym", "sym"], explicit=["sym", "sym", "sym"], where="transforms"), max_paths=40000)
    return out
