"""C02 Bases and margins count exactly the respondents eligible for the denominator."""
import numpy as np

from symx.harness import Obs
from symx.scalar import Q

from cr.cube.cube import Cube

from . import common as C
from .wire import world_for
from .c01 import V

META = {
    "title": "bases/margins = eligible respondents",
    "bounds": {
        "quick": {"wire-level (one unknown per wire cell, positive head counts)": "MR(3) x CAT(3), CAT(3)+subtotal x MR(3), MR(3) x MR(2..3), 3-D CAT x MR(3) x CAT(3)", "cat_valid": 2, "mr_items": 2, "ca": "2x2", "pairs": "CAT/MR squared, CA, CAT_DATE; 1-D CAT, MR; 3-D MR x CAT x CAT",
                  "subtotals": "one bottom-anchored sum subtotal on rows and/or columns", "threshold": "symbolic real",
                  "data": "all pattern masses m,u >= 0"},
        "thorough": {"wire-level (one unknown per wire cell, positive head counts)": "CAT(5)+2 subtotals squared, MR(5) x CAT(4)+subtotal and transposed, MR(4) x MR(4), 3-D MR(3) x CAT(3) x MR(2), MR(2) x MR(3) x MR(2), CAT(3) x CAT(4)+sub x CAT(3)+sub, MR(5) and CAT(6)+2 subtotals strands", "cat_valid": 3, "mr_items": "2-3", "ca": "2x3", "subtotals": "rows and columns", "data": "all pattern masses"},
    },
    "assumptions": ["A1: pattern masses m[p] >= 0, u[p] >= 0", "tabulator models the backend wire layout; floats are reals"],
    "outside": ["sizes beyond the bounds", "difference subtotals (C04)", "numeric-array dimensions"],
}


def bases_matrix(world, rax, cax, which, weight, extra=None):
    out = []
    for i in range(len(rax)):
        row = []
        for j in range(len(cax)):
            si = world._sib(rax, i, cax, j)
            sj = world._sib(cax, j, rax, i)
            if which == "row":
                pred = lambda p, i=i, j=j, si=si, sj=sj: rax.member(i, p, si) and cax.valid(j, p, sj)  # noqa: E731
            elif which == "col":
                pred = lambda p, i=i, j=j, si=si, sj=sj: cax.member(j, p, sj) and rax.valid(i, p, si)  # noqa: E731
            else:
                pred = lambda p, i=i, j=j, si=si, sj=sj: rax.valid(i, p, si) and cax.valid(j, p, sj)  # noqa: E731
            if extra is not None:
                pred = (lambda q: (lambda p: extra(p) and q(p)))(pred)
            row.append(world.mass(pred, weight))
        out.append(row)
    return C.to_array(out)


def _collapsed(label, impl, B, axis):
    """impl is the collapsed form of the per-cell bases B: scalar / 1-D along `axis` / 2-D"""
    obs = []
    nd = getattr(impl, "ndim", 0) if isinstance(impl, np.ndarray) else 0
    if nd == 2:
        obs.append(Obs(label, impl, B))
    elif nd == 1:
        # must equal the per-cell base at EVERY position of the collapsed axis
        if axis == "rows":       # one value per row
            if impl.shape[0] != B.shape[0]:
                # table base of an X_ARRAY slice is per column
                for i in range(B.shape[0]):
                    obs.append(Obs("%s~row%d" % (label, i), impl, B[i, :]))
            else:
                for j in range(B.shape[1]):
                    obs.append(Obs("%s~col%d" % (label, j), impl, B[:, j]))
        else:
            if impl.shape[0] != B.shape[1]:
                for j in range(B.shape[1]):
                    obs.append(Obs("%s~col%d" % (label, j), impl, B[:, j]))
            else:
                for i in range(B.shape[0]):
                    obs.append(Obs("%s~row%d" % (label, i), impl, B[i, :]))
    else:
        full = np.empty(B.shape, dtype=object)
        full[...] = impl
        obs.append(Obs(label, full, B))
    return obs


def _minmax(eng, B):
    vals = [x for x in B.reshape(-1)]
    if eng.symbolic:
        lo = hi = Q.lift(vals[0])
        for v in vals[1:]:
            lo = lo.minimum(v)
            hi = hi.maximum(v)
    else:
        lo, hi = min(vals), max(vals)
    return C.to_array([lo, hi])


def two_d(eng, rows, cols, weighted=True, table=None, k=0, mask=True, wire=False):
    spec = [rows, cols] if cols is not None else [rows]
    if table is not None:
        spec = [table] + spec
    world = world_for(eng, spec, wire)
    tau = eng.real("tau") if mask else 0
    cube = Cube(world.response(weighted=weighted), mask_size=tau)
    part = cube.partitions[k]
    tax, rax, cax = C.slice_axes(world)
    extra = (lambda p: tax.member(k, p)) if tax is not None else None
    obs = []
    wm = "m" if weighted else "u"
    B = {}
    for which in ("row", "col", "table"):
        for weight in (wm, "u"):
            B[which, weight] = bases_matrix(world, rax, cax, which, weight, extra)
    nsub_c = sum(1 for e in cax.elems if e[0] == "sub")
    nsub_r = sum(1 for e in rax.elems if e[0] == "sub")
    obs.append(Obs("row_weighted_bases", part.row_weighted_bases, B["row", wm]))
    obs.append(Obs("row_unweighted_bases", part.row_unweighted_bases, B["row", "u"]))
    obs.append(Obs("column_weighted_bases", part.column_weighted_bases, B["col", wm]))
    obs.append(Obs("column_unweighted_bases", part.column_unweighted_bases, B["col", "u"]))
    obs.append(Obs("table_weighted_bases", part.table_weighted_bases, B["table", wm]))
    obs.append(Obs("table_unweighted_bases", part.table_unweighted_bases, B["table", "u"]))
    obs += _collapsed("rows_margin", part.rows_margin, B["row", wm], "rows")
    obs += _collapsed("rows_base", part.rows_base, B["row", "u"], "rows")
    obs += _collapsed("columns_margin", part.columns_margin, B["col", wm], "cols")
    obs += _collapsed("columns_base", part.columns_base, B["col", "u"], "cols")
    # table base/margin and ranges are defined on base (non-inserted) vectors
    nr, nc = len(rax) - nsub_r, len(cax) - nsub_c
    Tw, Tu = B["table", wm][:nr, :nc], B["table", "u"][:nr, :nc]
    tb, tm = part.table_base, part.table_margin
    obs += _collapsed("table_margin", tm, Tw, "rows" if rax.var.kind != "cat" else "cols")
    obs += _collapsed("table_base", tb, Tu, "rows" if rax.var.kind != "cat" else "cols")
    obs.append(Obs("table_margin_range", part.table_margin_range, _minmax(eng, Tw)))
    obs.append(Obs("table_base_range", part.table_base_range, _minmax(eng, Tu)))
    if mask:
        mk = part.min_base_size_mask
        for nm, which in (("row_mask", "row"), ("column_mask", "col"), ("table_mask", "table")):
            Bu = B[which, "u"]
            orc = np.empty(Bu.shape, dtype=object)
            for idx in np.ndindex(Bu.shape):
                orc[idx] = (Q.lift(Bu[idx]) < tau) if eng.symbolic else bool(Bu[idx] < tau)
            obs.append(Obs("min_base_size_mask.%s" % nm, getattr(mk, nm), orc))
    return obs


def one_d(eng, rows, weighted=True, wire=False):
    world = world_for(eng, [rows], wire)
    tau = eng.real("tau")
    cube = Cube(world.response(weighted=weighted), mask_size=tau)
    part = cube.partitions[0]
    rax = world.axes[0]
    wm = "m" if weighted else "u"
    obs = []
    Bs = {}
    for weight, prop in ((wm, "weighted_bases"), ("u", "unweighted_bases")):
        orc = C.to_array([world.mass(lambda p, i=i: rax.valid(i, p), weight) for i in range(len(rax))])
        Bs[weight] = orc
        obs.append(Obs(prop, getattr(part, prop), orc))
    # the slice-compatible marginals of a strand: weighted / unweighted count of each row
    obs.append(Obs("rows_margin", part.rows_margin, C.to_array([world.mass(lambda p, i=i: rax.member(i, p), wm) for i in range(len(rax))])))
    obs.append(Obs("rows_base", part.rows_base, C.to_array([world.mass(lambda p, i=i: rax.member(i, p), "u") for i in range(len(rax))])))
    nbase = len([e for e in rax.elems if e[0] != "sub"])
    obs.append(Obs("table_margin_range", part.table_margin_range, _minmax(eng, Bs[wm][:nbase])))
    obs.append(Obs("table_base_range", part.table_base_range, _minmax(eng, Bs["u"][:nbase])))
    orc = np.empty(len(rax), dtype=object)
    for i in range(len(rax)):
        orc[i] = (Q.lift(Bs["u"][i]) < tau) if eng.symbolic else bool(Bs["u"][i] < tau)
    obs.append(Obs("min_base_size_mask", part.min_base_size_mask, orc))
    return obs


def _below(eng, B, tau):
    """true exactly where the base is below the threshold (an undefined base is not below anything)"""
    b = B.view(np.ndarray) if isinstance(B, np.ndarray) else np.asarray(B, dtype=object)
    out = np.empty(b.shape, dtype=object)
    for idx in np.ndindex(b.shape):
        if eng.symbolic:
            x = Q.lift(b[idx])
            nn = x.isnan()
            if isinstance(nn, (bool, np.bool_)):
                out[idx] = False if nn else (x < tau)
            else:
                out[idx] = (~nn) & (x < tau)
        else:
            out[idx] = bool(b[idx] < tau)
    return out


def mask_with_differences(eng):
    """the minimum-base mask next to subtotal differences, whose base in their own direction is undefined (NaN): never masked"""
    from .cellworld import CellWorld
    from .c11 import D, S
    rows = ("cat", "a", 3, {"missing_at": (1,), "insertions": [D("r1-3", [1], [3], anchor="top"), S("r12", [1, 2])]})
    cols = ("cat", "b", 3, {"missing_at": (0,), "insertions": [D("c12-3", [1, 2], [3]), S("c23", [2, 3], anchor=1)]})
    w = CellWorld(eng, [rows, cols], u_concrete=None, u_strict=True)
    tau = eng.real("tau")
    part = Cube(w.response(), mask_size=tau).partitions[0]
    mk = part.min_base_size_mask
    return [Obs("row_mask", mk.row_mask, _below(eng, part.row_unweighted_bases, tau)),
            Obs("column_mask", mk.column_mask, _below(eng, part.column_unweighted_bases, tau)),
            Obs("table_mask", mk.table_mask, _below(eng, part.table_unweighted_bases, tau))]


def mask_in_cube_set(eng):
    """the threshold of a cube set reaches every partition, also the one re-created when a single-column filter cube is re-inflated"""
    from cr.cube.cube import CubeSet
    from symx.inject import SymList
    from .cellworld import NUM_META

    def text_dim(values):
        els = [{"id": i, "missing": False, "value": v} for i, v in enumerate(values)]
        els.append({"id": -1, "missing": True, "value": {"?": -1}})
        return {"derived": False, "references": {"alias": "brand", "name": "brand"},
                "type": {"class": "enum", "elements": els, "subtype": {"class": "text", "missing_reasons": {"No Data": -1}, "missing_rules": {}}}}

    def resp(values, u, single):
        r = {"element": "crunch:cube", "dimensions": [text_dim(values)], "counts": SymList(list(u) + [0]), "missing": 0, "n": 12,
             "measures": {"count": {"data": SymList(list(u) + [0]), "n_missing": 0, "metadata": NUM_META}}}
        if single:
            r["is_single_col_cube"] = True
        return {"result": r}
    su = [eng.real("su%d" % i, strict_lo=0) for i in range(3)]
    fu = [eng.real("fu%d" % i, strict_lo=0) for i in range(2)]
    tau = eng.real("tau")
    cs = CubeSet([resp(["A", "B", "C"], su, False), resp(["A", "C"], fu, True)], [{}, {}], population=None, min_base=tau)
    obs = []
    for c in (0, 1):
        part = cs.partition_sets[0][c]
        obs.append(Obs("cube %d min_base_size_mask" % c, part.min_base_size_mask, _below(eng, part.unweighted_bases, tau)))
    return obs


def Vs(kind, alias, size, missing_at=(1,), sub=None, sub2=None):
    kw = {"missing_at": tuple(missing_at)}
    if sub:
        kw["insertions"] = [C.subtotal("S", sub)]
    if sub2:
        kw["insertions"].append(C.subtotal("S2", sub2))
    return (kind, alias, size, kw)


def specs(tier):
    out = []
    M = "props.c02"

    def add(name, fn, params, max_paths=150):
        out.append(dict(module=M, fn=fn, name=name, params=params, max_paths=max_paths))

    add("2d cat x cat", "two_d", dict(rows=V("cat", "a", 2, (1,)), cols=V("cat", "b", 2, (0,))))
    add("2d cat x cat (missing last/middle)", "two_d", dict(rows=V("cat", "a", 2, (2,)), cols=V("cat", "b", 2, (1,))))
    add("2d cat x mr", "two_d", dict(rows=V("cat", "a", 2, (1,)), cols=V("mr", "b", 2)))
    add("2d mr x cat", "two_d", dict(rows=V("mr", "a", 2), cols=V("cat", "b", 2, (0,))))
    add("2d mr x mr", "two_d", dict(rows=V("mr", "a", 2), cols=V("mr", "b", 2)))
    add("2d ca", "two_d", dict(rows=V("ca", "a", (2, 2), (1,)), cols=None))
    add("2d catdate x cat", "two_d", dict(rows=V("catdate", "a", 2, (0,)), cols=V("cat", "b", 2, (1,))))
    add("2d cat x cat unweighted", "two_d", dict(rows=V("cat", "a", 2, (1,)), cols=V("cat", "b", 2, (0,)), weighted=False))
    add("2d cat+sub x cat", "two_d", dict(rows=Vs("cat", "a", 2, (1,), sub=[1, 2]), cols=V("cat", "b", 2, (0,))))
    add("2d cat x cat+sub", "two_d", dict(rows=V("cat", "a", 2, (1,)), cols=Vs("cat", "b", 2, (2,), sub=[2, 1])))
    add("2d cat+sub x mr", "two_d", dict(rows=Vs("cat", "a", 2, (0,), sub=[1, 2]), cols=V("mr", "b", 2)))
    add("2d mr x cat+sub", "two_d", dict(rows=V("mr", "a", 2), cols=Vs("cat", "b", 2, (1,), sub=[1, 2])))
    add("1d cat", "one_d", dict(rows=V("cat", "a", 3, (1,))))
    add("1d cat+sub", "one_d", dict(rows=Vs("cat", "a", 3, (0,), sub=[1, 3])))
    add("1d mr", "one_d", dict(rows=V("mr", "a", 3)))
    add("3d mr x cat x cat p1", "two_d", dict(table=V("mr", "t", 2), rows=V("cat", "a", 2, (1,)), cols=V("cat", "b", 2, (1,)), k=1, mask=False))
    add("3d cat x cat x mr p1", "two_d", dict(table=V("cat", "t", 2, (1,)), rows=V("cat", "a", 2, (1,)), cols=V("mr", "b", 2), k=1, mask=False))
    add("mask next to subtotal differences (undefined bases)", "mask_with_differences", dict())
    add("mask threshold in a cube set with a re-inflated filter cube", "mask_in_cube_set", dict())
    # wire-level worlds (props/wire.py): one unknown per wire cell, larger sizes
    add("wire 2d mr3 x cat3", "two_d", dict(rows=V("mr", "a", 3), cols=V("cat", "b", 3, (1,)), wire=True, mask=False))
    add("wire 2d cat3+sub x mr3", "two_d", dict(rows=Vs("cat", "a", 3, (0,), sub=[1, 3]), cols=V("mr", "b", 3), wire=True, mask=False))
    add("wire 2d mr3 x mr3", "two_d", dict(rows=V("mr", "a", 3), cols=V("mr", "b", 3), wire=True, mask=False))
    add("wire 3d cat x mr3 x cat3 p1", "two_d", dict(table=V("cat", "t", 2, (1,)), rows=V("mr", "a", 3), cols=V("cat", "b", 3, (0,)), k=1, mask=False, wire=True))
    if tier == "thorough":
        add("wire 2d cat5+2sub x cat5+2sub", "two_d", dict(rows=Vs("cat", "a", 5, (2,), sub=[1, 4], sub2=[2, 3, 5]), cols=Vs("cat", "b", 5, (0, 3), sub=[2, 3], sub2=[1, 5]), wire=True, mask=False), max_paths=400)
        add("wire 2d mr5 x cat4+sub", "two_d", dict(rows=V("mr", "a", 5), cols=Vs("cat", "b", 4, (1,), sub=[1, 2]), wire=True, mask=False), max_paths=400)
        add("wire 2d cat4+sub x mr5", "two_d", dict(rows=Vs("cat", "a", 4, (4,), sub=[2, 4]), cols=V("mr", "b", 5), wire=True, mask=False), max_paths=400)
        add("wire 2d mr4 x mr4", "two_d", dict(rows=V("mr", "a", 4), cols=V("mr", "b", 4), wire=True, mask=False), max_paths=400)
        add("wire 2d mr2 x mr2 with mask", "two_d", dict(rows=V("mr", "a", 2), cols=V("mr", "b", 2), wire=True), max_paths=600)
        add("wire 2d mr3 x mr3 unweighted", "two_d", dict(rows=V("mr", "a", 3), cols=V("mr", "b", 3), wire=True, mask=False, weighted=False), max_paths=400)
        add("wire 3d mr3 x cat3 x mr2 p2", "two_d", dict(table=V("mr", "t", 3), rows=V("cat", "a", 3, (1,)), cols=V("mr", "b", 2), k=2, mask=False, wire=True), max_paths=400)
        add("wire 3d mr2 x mr3 x mr2 p1", "two_d", dict(table=V("mr", "t", 2), rows=V("mr", "a", 3), cols=V("mr", "b", 2), k=1, mask=False, wire=True), max_paths=400)
        add("wire 3d cat3 x cat4+sub x cat3+sub p2", "two_d", dict(table=V("cat", "t", 3, (0,)), rows=Vs("cat", "a", 4, (1,), sub=[1, 3]), cols=Vs("cat", "b", 3, (3,), sub=[1, 2]), k=2, mask=False, wire=True), max_paths=400)
        add("wire 1d mr5", "one_d", dict(rows=V("mr", "a", 5), wire=True))
        add("wire 1d cat6+2sub", "one_d", dict(rows=Vs("cat", "a", 6, (2, 5), sub=[1, 6], sub2=[2, 3, 4]), wire=True))
        add("2d cat3 x cat3", "two_d", dict(rows=V("cat", "a", 3, (1,)), cols=V("cat", "b", 3, (0, 2))), max_paths=400)
        add("2d cat3+sub x cat3+sub", "two_d", dict(rows=Vs("cat", "a", 3, (3,), sub=[1, 3]), cols=Vs("cat", "b", 3, (0,), sub=[2, 3])), max_paths=400)
        add("2d cat3 x mr", "two_d", dict(rows=V("cat", "a", 3, (1,)), cols=V("mr", "b", 2)), max_paths=400)
        add("2d mr3 x cat", "two_d", dict(rows=V("mr", "a", 3), cols=V("cat", "b", 2, (1,))), max_paths=400)
        add("2d ca 2x3", "two_d", dict(rows=V("ca", "a", (2, 3), (1,)), cols=None), max_paths=400)
        add("2d mr x mr unweighted", "two_d", dict(rows=V("mr", "a", 2), cols=V("mr", "b", 2), weighted=False), max_paths=400)
        add("3d cat x mr x cat p0", "two_d", dict(table=V("cat", "t", 2, (0,)), rows=V("mr", "a", 2), cols=V("cat", "b", 2, (1,)), k=0, mask=False), max_paths=400)
        add("3d mr x mr x cat p0", "two_d", dict(table=V("mr", "t", 2), rows=V("mr", "a", 2), cols=V("cat", "b", 2, (1,)), k=0, mask=False), max_paths=400)
    return out
