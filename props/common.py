"""Shared scenario builders: populations, type pairings, respondent-level set predicates."""
from fractions import Fraction

import numpy as np

from symx import tab
from symx.harness import Obs
from symx.scalar import Q
from symx.tab import SEL, OTH, MIS

from cr.cube.cube import Cube


# missing-category placements for a categorical with `nvalid` valid categories
def cat_layout(nvalid, missing_at):
    """list of (id, missing); missing_at: tuple of positions (in the final payload) holding missing cats"""
    total = nvalid + len(missing_at)
    cats = []
    vid = 1
    mid = 0
    for pos in range(total):
        if pos in missing_at:
            mid += 1
            cats.append((-1 if mid == 1 else 90 + mid, True))
        else:
            cats.append((vid, False))
            vid += 1
    return cats


def make_var(kind, alias, size, missing_at=(1,), insertions=None, numeric_values=None, dates=False, cats=None, selected_id=None):
    if kind in ("cat", "catdate"):
        cats = cat_layout(size, missing_at)
        d = None
        if kind == "catdate" or dates:
            d = ["2020-%02d" % (k + 1) for k in range(len(cats))]
        return tab.Cat(alias, cats, dates=d, insertions=insertions, numeric_values=numeric_values)
    if kind == "mr":
        return tab.MR(alias, size, insertions=insertions)
    if kind == "ca":
        return tab.CA(alias, size[0], cats if cats is not None else cat_layout(size[1], missing_at), insertions=insertions,
                      numeric_values=numeric_values, selected_id=selected_id)
    raise ValueError(kind)


class Axis:
    """one analysis dimension seen from the respondents: elements with membership and validity predicates"""

    def __init__(self, var_index, var, role=None):
        self.vi = var_index
        self.var = var
        self.role = role  # for CA: 'items' or 'cats'
        if var.kind == "cat":
            self.elems = [("cat", k) for k in var.valid]
            # bottom-anchored sum subtotals defined on the variable: union of the addend categories
            for ins in (var.insertions or []):
                ids = ins.get("args") or ins.get("kwargs", {}).get("positive", [])
                ks = [k for k in var.valid if var.cats[k][0] in ids]
                self.elems.append(("sub", ks))
        elif var.kind == "mr":
            self.elems = [("item", k) for k in range(var.n)]
        elif var.kind == "ca":
            if role == "items":
                self.elems = [("caitem", k) for k in range(var.n)]
            else:
                self.elems = [("cacat", c) for c in var.valid]

    def __len__(self):
        return len(self.elems)

    def member(self, e, p, other=None):
        """is the respondent with pattern p a member of element e?  `other` = element of the sibling CA axis"""
        kind, k = self.elems[e]
        a = p[self.vi]
        if kind == "cat":
            return a == k
        if kind == "sub":
            return a in k
        if kind == "item":
            return a[k] == SEL
        if kind == "caitem":
            return True
        if kind == "cacat":
            # category k on the item named by the sibling axis
            return a[other] == k
        raise AssertionError(kind)

    def asked(self, e, p):
        """restriction to the part of the data element e is tabulated from: none at respondent level (a respondent is one pattern)"""
        return True

    def valid(self, e, p, other=None):
        """does the respondent have a valid (non-missing) answer on this dimension for element e?"""
        kind, k = self.elems[e]
        a = p[self.vi]
        v = self.var
        if kind in ("cat", "sub"):
            return not v.cats[a][1]
        if kind == "item":
            return a[k] != MIS
        if kind == "caitem":
            return not v.cats[a[k]][1]
        if kind == "cacat":
            return not v.cats[a[other]][1]
        raise AssertionError(kind)


def subtotal(name, ids, anchor="bottom", **kw):
    d = {"anchor": anchor, "args": list(ids), "function": "subtotal", "name": name}
    d.update(kw)
    return d


class World:
    """population + 2-D (or 3-D) analysis layout"""

    def __init__(self, eng, specs, unweighted_concrete=None, prefix=""):
        """specs: list of (kind, alias, size, kwargs) in cube order (table?, rows, columns);
        a CA variable contributes two consecutive analysis dimensions (items, cats)."""
        self.eng = eng
        self.vars = [make_var(k, a, s, **kw) for (k, a, s, kw) in specs]
        self.pop = tab.Population(eng, self.vars, prefix=prefix, unweighted_concrete=unweighted_concrete)
        self.axes = []
        for vi, v in enumerate(self.vars):
            if v.kind == "ca":
                self.axes.append(Axis(vi, v, "items"))
                self.axes.append(Axis(vi, v, "cats"))
            else:
                self.axes.append(Axis(vi, v))
        self.order = list(range(len(self.vars)))

    def response(self, weighted=True, assume_weighted=False, **kw):
        resp = tab.response(self.pop, self.order, weighted=weighted, **kw)
        if assume_weighted and weighted and self.eng.symbolic:
            # exclude the measure-zero coincidence "weighted tensor == unweighted tensor" (the library then treats the cube
            # as unweighted); that path is covered by C01-C03
            cw = resp["result"]["measures"]["count"]["data"]
            cu = resp["result"]["counts"]
            from symx.scalar import Q
            self.eng.assume(Q.lift(cw[0]) != cu[0], note="the first weighted wire cell differs from its unweighted count (cube is weighted)")
        return resp

    # ---- respondent-level sets for a 2-D slice made of axes (ra, ca) [+ table axis ta with element t]
    def _sib(self, ax_a, ea, ax_b, eb):
        """element of the sibling CA axis, if a and b are the two axes of one CA variable"""
        if ax_a.var is ax_b.var and ax_a.var.kind == "ca":
            return eb
        return None

    def cell_pred(self, ra, i, ca, j, extra=None):
        def pred(p):
            if extra is not None and not extra(p):
                return False
            return ra.member(i, p, self._sib(ra, i, ca, j)) and ca.member(j, p, self._sib(ca, j, ra, i))
        return pred

    def mass(self, pred, weight="m"):
        return self.pop.mass(pred, weight)


def slice_axes(world, ndim_table=0):
    """(table_axis or None, rows_axis, cols_axis)"""
    ax = world.axes
    if len(ax) == 3:
        return ax[0], ax[1], ax[2]
    return None, ax[0], ax[1]


def to_array(rows):
    """object ndarray from nested lists of scalars (symbolic or concrete)"""
    n = len(rows)
    if n == 0:
        return np.empty((0,), dtype=object)
    if isinstance(rows[0], list):
        m = len(rows[0])
        out = np.empty((n, m), dtype=object)
        for i in range(n):
            for j in range(m):
                out[i, j] = rows[i][j]
        return out
    out = np.empty((n,), dtype=object)
    for i in range(n):
        out[i] = rows[i]
    return out


def div(a, b):
    """extended-real division usable in both modes (numpy semantics for 0/0 and x/0)"""
    if isinstance(a, Q) or isinstance(b, Q):
        return Q.lift(a) / b
    with np.errstate(all="ignore"):
        return np.float64(a) / np.float64(b)


def sqrt(a):
    if isinstance(a, Q):
        return a.sqrt()
    with np.errstate(all="ignore"):
        return np.sqrt(np.float64(a))


NAN = float("nan")


def nan_like(eng):
    return Q.NAN if eng.symbolic else np.float64("nan")
