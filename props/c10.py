"""C10 Transposing the response transposes the result."""
import re

import numpy as np

from symx.harness import Obs

from cr.cube.cube import Cube

from . import common as C
from . import reflect as R
from .cellworld import CellWorld
from .c11 import D, S
from .c14 import Vn

META = {
    "title": "transposition",
    "bounds": {
        "quick": {"pairs": "CAT x CAT (2x3, numeric values, sum subtotal + difference on both dimensions, mirrored), CAT_DATE x CAT vs CAT x CAT_DATE, CAT x MR vs MR x CAT (2 items), MR x MR",
                  "properties": "every public property of _Slice whose row/column counterpart exists (by reflection), row_order/column_order",
                  "data": "all weighted counts >= 0 (cell level: free wire tensors incl. MR planes), population symbolic"},
        "thorough": {"pairs": "as quick with 3x3 and 3-item MR", "properties": "same", "data": "same"},
    },
    "assumptions": ["weighted counts >= 0; head counts fixed", "cell-level tensors of MR dimensions are free (not tied to respondents): the relation must hold for every tensor"],
    "outside": ["properties without a counterpart in the other direction (column index, pairwise tests, smoothing, fills)", "transforms other than mirrored insertions (C05 covers display transforms)"],
}


def swap(name):
    """row <-> column in a property name"""
    def rep(m):
        w = m.group(0)
        return {"rows": "columns", "columns": "rows", "row": "column", "column": "row"}[w]
    return re.sub(r"rows|columns|row|column", rep, name)


NO_COUNTERPART = {"column_index", "smoothed_column_index", "smoothed_column_percentages", "smoothed_column_proportions",
                  "smoothed_columns_scale_mean", "smoothed_means", "columns_squared_base", "rows_dimension_fills",
                  "pairwise_indices", "pairwise_indices_alt", "pairwise_means_indices", "pairwise_means_indices_alt",
                  "population_fraction", "payload_order"}


def _T(v):
    if isinstance(v, np.ndarray) and v.ndim == 2:
        return v.T
    if isinstance(v, np.ndarray) and v.ndim == 3:
        return np.transpose(v, (0, 2, 1))
    return v


MEDIANS = {"rows_scale_median", "columns_scale_median"}


def pair_obs(eng, A, B, only=None, exclude=()):
    obs = []
    names = R.public_props(A)
    for p in names:
        if p in NO_COUNTERPART or p in exclude or (only is not None and p not in only):
            continue
        q = swap(p)
        if q not in names:
            continue
        a = R.read(A, p)
        b = R.read(B, q)
        if p == "shape":
            b = (b[1], b[0])
        obs += R.compare("%s ~ %s^T" % (p, q), a, b, transform_b=_T)
    obs.append(Obs("row_order ~ column_order", [int(i) for i in A.row_order()], [int(i) for i in B.column_order()], kind="same"))
    obs.append(Obs("column_order ~ row_order", [int(i) for i in A.column_order()], [int(i) for i in B.row_order()], kind="same"))
    return obs


def cat_cat(eng, nr=2, nc=3, rows_date=False, ins=True, values=True, medians=False, strict=False, multi_diff=False, valueless=False, hide_valued=False, sort_by_insertion=False):
    if medians:
        # the medians fork on the value order and on every cumulative threshold: own small scenario, concrete values
        rv, cv = [3, 1, 2][:nr], [2, 5, 1][:nc]
    else:
        rv = [eng.real("rv%d" % k) for k in range(nr)] if values else None
        cv = [eng.real("cv%d" % k) for k in range(nc)] if values else None
    if valueless:
        # one category of each dimension carries no numeric value (a "don't know"): scale statistics leave it out
        rv[-1] = None
        cv[1] = None
    rins = [S("r12", [1, 2], anchor="top"), D("rd", [2], [1])] if ins else []
    cins = [S("c13", [1, 3], anchor=2), D("cd", [1], [2, 3])] if ins else []
    if multi_diff:
        # differences with several terms on a side: blanked in every proportion on a categorical-date dimension
        rins = [D("r13-2", [1, 3], [2]), D("r3-12", [3], [1, 2], anchor="top")]
        cins = [S("c12", [1, 2])]
    rk = "catdate" if rows_date else "cat"
    rows = (rk, "a", nr, {"missing_at": (1,), "insertions": rins, "numeric_values": {k + 1: v for k, v in enumerate(rv)} if values else None})
    cols = ("cat", "b", nc, {"missing_at": (0,), "insertions": cins, "numeric_values": {k + 1: v for k, v in enumerate(cv)} if values else None})
    w = CellWorld(eng, [rows, cols], w_strict=strict)
    P = eng.pyreal("P", lo=0)
    ta = tb = None
    if hide_valued:
        # every category of the second variable that carries a numeric value is hidden, the value-less one stays visible
        ids = w.cat_ids(1)
        hide = {str(i): {"hide": True} for k, i in enumerate(ids) if cv[k] is not None}
        ta = {"columns_dimension": {"elements": dict(hide)}}
        tb = {"rows_dimension": {"elements": dict(hide)}}
    if sort_by_insertion:
        # columns of A sorted by A's first inserted row <-> rows of B sorted by B's first inserted column
        order = {"type": "opposing_insertion", "insertion_id": 1, "measure": "count_weighted", "direction": "descending"}
        ta = {"columns_dimension": {"order": dict(order)}}
        tb = {"rows_dimension": {"order": dict(order)}}
    A = Cube(w.response(), transforms=ta, population=P).partitions[0]
    B = Cube(w.transposed().response(), transforms=tb, population=P).partitions[0]
    if medians:
        return pair_obs(eng, A, B, only=MEDIANS)
    return pair_obs(eng, A, B, exclude=MEDIANS)


def with_mr(eng, rows, cols):
    w = CellWorld(eng, [rows, cols])
    P = eng.pyreal("P", lo=0)
    A = Cube(w.response(), population=P).partitions[0]
    B = Cube(w.transposed().response(), population=P).partitions[0]
    return pair_obs(eng, A, B)


def specs(tier):
    out = []
    M = "props.c10"

    def add(name, fn, params, max_paths=300):
        out.append(dict(module=M, fn=fn, name=name, params=params, max_paths=max_paths, vc_timeouts=(5, 40)))

    add("cat x cat plain", "cat_cat", dict(ins=False))
    add("cat x cat insertions + values (strictly positive counts)", "cat_cat", dict(strict=True))
    add("cat x cat values, a value-less category on each dimension", "cat_cat", dict(nr=3, nc=3, ins=False, strict=True, valueless=True))
    add("cat x cat values, every valued category of one variable hidden", "cat_cat", dict(nr=3, nc=3, ins=False, strict=True, valueless=True, hide_valued=True))
    add("cat x cat insertions, zero counts allowed", "cat_cat", dict(nr=2, nc=2, values=False))
    add("cat x cat medians", "cat_cat", dict(nr=2, nc=2, ins=False, medians=True), max_paths=2000)
    add("catdate x cat", "cat_cat", dict(rows_date=True, values=False))
    add("catdate x cat, multi-term differences on the date dimension", "cat_cat", dict(rows_date=True, values=False, nr=3, nc=2, multi_diff=True, strict=True))
    add("cat x mr", "with_mr", dict(rows=("cat", "a", 2, {"missing_at": (1,)}), cols=("mr", "b", 2, {})))
    add("mr x mr", "with_mr", dict(rows=("mr", "a", 2, {}), cols=("mr", "b", 2, {})))
    if tier == "thorough":
        add("cat x cat two subtotals per dimension, sorted by an opposing insertion (mirrored)", "cat_cat", dict(nr=2, nc=3, values=False, strict=True, sort_by_insertion=True), max_paths=600)
        add("cat3 x cat3 insertions", "cat_cat", dict(nr=3, nc=3))
        add("cat+sub x mr3", "with_mr", dict(rows=("cat", "a", 2, {"missing_at": (0,), "insertions": [S("r12", [1, 2])]}), cols=("mr", "b", 3, {})))
    return out
