"""C15 Share of sum divides by the base-cell total of the row, column or table."""
import copy
import json

import numpy as np

from symx.harness import Obs
from symx.inject import SymList
from symx.scalar import Q

from cr.cube.cube import Cube

from . import common as C
from .cellworld import CellWorld

META = {
    "title": "share of sum = sum / base-cell total",
    "bounds": {
        "quick": {"tabulated": "CAT(3) x CAT(3) with 0-2 sum subtotals per dimension (any anchors), 1-D CAT(4) with sum and difference subtotals",
                  "fixtures": "numeric-array sum fixtures of the repository as configuration templates (all sums symbolic)",
                  "data": "all real sums (any sign), NaN pattern enumerated"},
        "thorough": {"tabulated": "CAT(4) x CAT(3), 3 insertions per dimension", "fixtures": "same", "data": "all real sums"},
    },
    "assumptions": ["every row / column / table total of the sum measure is non-zero (a share over a zero total is undefined)", "sums are arbitrary reals (negative allowed); which cells are unavailable ({'?': -1}) is part of the configuration",
                    "the oracle is stated over the public `sums` output (C01/C04 link it to the response)"],
    "outside": ["difference subtotals in 2-D (reported NaN by design, C04)", "sizes beyond the bounds"],
}


def _nan0(eng, x):
    if eng.symbolic:
        q = Q.lift(x)
        return q.nan_to(0)
    return 0.0 if np.isnan(x) else x


def _total(eng, vals):
    tot = None
    for v in vals:
        v = _nan0(eng, v)
        tot = v if tot is None else tot + v
    if tot is None:
        tot = Q.lift(0) if eng.symbolic else 0.0
    return tot


def _assume_nonzero(eng, t):
    if eng.symbolic:
        t = Q.lift(t)
        if not t.is_const:
            eng.assume((t != 0), note="row/column/table totals of the sum measure are non-zero")


def share_obs(eng, part, tag=""):
    """oracle from the public outputs: share = sums / nansum of the base cells of the row / column / table"""
    S = part.sums
    Sb = S.view(np.ndarray) if isinstance(S, np.ndarray) else np.asarray(S)
    nr, nc = Sb.shape
    ins_r = set(int(i) for i in part.inserted_row_idxs)
    ins_c = set(int(i) for i in part.inserted_column_idxs)
    diff_r = set(int(i) for i in part.diff_row_idxs)
    diff_c = set(int(i) for i in part.diff_column_idxs)
    base_r = [i for i in range(nr) if i not in ins_r]
    base_c = [j for j in range(nc) if j not in ins_c]
    col_tot = [_total(eng, [Sb[i, j] for i in base_r]) for j in range(nc)]
    row_tot = [_total(eng, [Sb[i, j] for j in base_c]) for i in range(nr)]
    tab_tot = _total(eng, [Sb[i, j] for i in base_r for j in base_c])
    # a share over a total of exactly zero is not defined by the property: outside the claim
    for t in col_tot + row_tot + [tab_tot]:
        _assume_nonzero(eng, t)
    keep = [(i, j) for i in range(nr) for j in range(nc) if i not in diff_r and j not in diff_c]
    obs = []
    for name, den in (("column_share_sum", lambda i, j: col_tot[j]), ("row_share_sum", lambda i, j: row_tot[i]), ("total_share_sum", lambda i, j: tab_tot)):
        impl = getattr(part, name)
        ib = impl.view(np.ndarray)
        iv = C.to_array([ib[i, j] for (i, j) in keep])
        ov = C.to_array([C.div(Sb[i, j], den(i, j)) for (i, j) in keep])
        obs.append(Obs(tag + name, iv, ov))
    return obs


def strand_obs(eng, part, tag=""):
    S = part.sums
    Sb = S.view(np.ndarray)
    ins = set(int(i) for i in part.inserted_row_idxs)
    base = [i for i in range(len(Sb)) if i not in ins]
    tot = _total(eng, [Sb[i] for i in base])
    _assume_nonzero(eng, tot)
    ov = C.to_array([C.div(Sb[i], tot) for i in range(len(Sb))])
    return [Obs(tag + "share_sum", part.share_sum, ov)]


def Vc(alias, n, missing_at, insertions):
    return ("cat", alias, n, {"missing_at": tuple(missing_at), "insertions": insertions})


def cat_x_cat(eng, nrows=3, ncols=3, row_ins=(), col_ins=(), unavailable=(), transforms=None):
    w = CellWorld(eng, [Vc("a", nrows, (1,), list(row_ins)), Vc("b", ncols, (0,), list(col_ins))])
    M = w.free_measure("sum", "s", unavailable=unavailable)
    part = Cube(w.response(), transforms=transforms).partitions[0]
    obs = share_obs(eng, part)
    if transforms is None:
        # the sums the shares are taken of: a subtotal / intersection cell is the plain signed sum of the base cells it spans
        # (a NaN among them makes it NaN, a NaN elsewhere does not)
        from .c11 import elements, display_order
        rb, ri = elements(w, 0)
        cb, ci = elements(w, 1)
        R = display_order(w.vars[0], rb, ri)
        Cc = display_order(w.vars[1], cb, ci)
        want = np.empty((len(R), len(Cc)), dtype=object)
        for a, (rsg, _) in enumerate(R):
            for b, (csg, _) in enumerate(Cc):
                tot = None
                for i, si in rsg.items():
                    for j, sj in csg.items():
                        t = M[i, j] if si * sj > 0 else -M[i, j]
                        tot = t if tot is None else tot + t
                want[a, b] = tot
        obs.append(Obs("sums (base cells, subtotals, intersections)", part.sums, want))
    return obs


def cat_strand(eng, n=4, ins=(), unavailable=()):
    w = CellWorld(eng, [Vc("a", n, (2,), list(ins))])
    w.free_measure("sum", "s", unavailable=unavailable)
    part = Cube(w.response()).partitions[0]
    return strand_obs(eng, part)


def fixture(eng, path, transforms=None):
    """a repository fixture as configuration template: every number of the sum measure becomes symbolic"""
    raw = json.load(open(path))
    r = raw.get("value", raw)["result"]
    data = r["measures"]["sum"]["data"]
    new = []
    for n, x in enumerate(data):
        new.append(x if isinstance(x, dict) else eng.real("s%d" % n))
    r["measures"]["sum"]["data"] = SymList(new)
    cube = Cube(raw, transforms=transforms)
    obs = []
    for k, part in enumerate(cube.partitions[:2]):
        try:
            part.sums
        except ValueError:
            continue      # this cube of the fixture carries no sum measure
        if part.ndim == 2:
            obs += share_obs(eng, part, tag="p%d." % k)
        elif part.ndim == 1:
            obs += strand_obs(eng, part, tag="p%d." % k)
    return obs


S = C.subtotal
FX = "/repo/tests/fixtures/numeric_arrays/"


def specs(tier):
    out = []
    M = "props.c15"

    def add(name, fn, params, max_paths=60):
        out.append(dict(module=M, fn=fn, name=name, params=params, max_paths=max_paths))

    add("cat x cat plain", "cat_x_cat", dict())
    add("cat x cat NaN cells", "cat_x_cat", dict(unavailable=[[0, 1], [2, 3]]))
    add("cat x cat row subtotal", "cat_x_cat", dict(row_ins=[S("r12", [1, 2])]))
    add("cat x cat row subtotal top + col subtotal", "cat_x_cat", dict(row_ins=[S("r13", [1, 3], anchor="top")], col_ins=[S("c23", [2, 3], anchor=1)]))
    add("cat x cat 2 row + 2 col subtotals", "cat_x_cat", dict(row_ins=[S("r12", [1, 2]), S("r23", [3, 2], anchor=2)], col_ins=[S("c12", [1, 2], anchor="top"), S("c13", [1, 3])]))
    add("cat x cat col subtotal, NaN outside addends", "cat_x_cat", dict(col_ins=[S("c12", [1, 2])], unavailable=[[0, 3]]))
    add("cat x cat col subtotal, NaN inside addends", "cat_x_cat", dict(col_ins=[S("c12", [1, 2])], row_ins=[S("r12", [1, 2])], unavailable=[[0, 1]]))
    add("cat x cat row + col subtotal, NaN outside both", "cat_x_cat", dict(col_ins=[S("c12", [1, 2])], row_ins=[S("r12", [1, 2], anchor="top")], unavailable=[[3, 3]]))
    add("strand plain", "cat_strand", dict())
    add("strand subtotals", "cat_strand", dict(ins=[S("s12", [1, 2]), S("s34", [3, 4], anchor="top")]))
    add("strand difference", "cat_strand", dict(ins=[{"anchor": "bottom", "function": "subtotal", "name": "d", "kwargs": {"positive": [1, 2], "negative": [4]}}]))
    add("strand NaN", "cat_strand", dict(ins=[S("s12", [1, 2])], unavailable=[[4]]))
    for f in ("num-arr-sum-grouped-by-cat-hs.json", "num-arr-sum-grouped-by-cat.json", "num-arr-sum-no-grouping.json", "num-arr-sum-x-mr.json"):
        add("fixture " + f, "fixture", dict(path=FX + f))
    add("fixture num-arr-sum-grouped-by-cat-hs + col subtotal", "fixture",
        dict(path=FX + "num-arr-sum-grouped-by-cat-hs.json",
             transforms={"columns_dimension": {"insertions": [{"anchor": "top", "function": "subtotal", "name": "all", "args": [1, 2], "id": 7}]}}))
    if tier == "thorough":
        add("cat4 x cat3 3+3 subtotals", "cat_x_cat", dict(nrows=4, row_ins=[S("a", [1, 2]), S("b", [2, 3, 4], anchor=1), S("c", [4], anchor="top")],
                                                         col_ins=[S("x", [1, 2]), S("y", [2, 3], anchor="top"), S("z", [1, 3], anchor=2)]))
        add("cat4 x cat3 NaNs + subtotals", "cat_x_cat", dict(nrows=4, row_ins=[S("a", [1, 2]), S("b", [3, 4])], col_ins=[S("x", [1, 3])], unavailable=[[0, 1], [3, 2], [4, 3]]))
        add("strand 3 insertions", "cat_strand", dict(n=5, ins=[S("a", [1, 5]), S("b", [2, 3], anchor=3), S("c", [1, 2, 3, 4, 5], anchor="top")]))
    return out
