"""C18 Results are a pure function of the arguments, whatever the access history."""
import copy
import types

import numpy as np

from symx.harness import Obs
from symx.scalar import Q

import cr.cube.cube as cube_module
from cr.cube.cube import Cube, CubeSet

from . import reflect as R
from .cellworld import CellWorld
from .c11 import D, S

META = {
    "title": "purity under access histories",
    "level": "model_checking",
    "bounds": {
        "quick": {"configurations": "CAT x MR(3, transforms by alias / sub-variable id, explicit order with a stale id, id-less insertions, hide), CAT x CAT with insertions and numeric values, CAT strand with sum and difference subtotals, CAT x CAT_DATE with the smoothed measures (default window), 3-D CAT x MR x CAT sharing one transforms dict across partitions, MR strand",
                  "schedules (enumerated)": "every property after a full warm-up in alphabetical and in reverse order; all ordered pairs (Q then P) over 24 key properties; every property read twice; two partitions interleaved; a second and third cube built from the SAME response / transforms objects after use; dict vs {'value': ...} envelope vs JSON text; cached arrays re-read after all other reads",
                  "data (solver)": "all weighted counts symbolic: every value read under a schedule is proved equal to the value of a fresh evaluation on pristine copies"},
        "thorough": {"schedules (enumerated)": "all ordered pairs over ALL public properties", "configurations": "same", "data (solver)": "same"},
    },
    "assumptions": ["schedules are enumerated (bounded), only the data quantifier is decided by the solver", "json.loads is stubbed by a deep copy of the response dict (parsing itself is trusted)"],
    "stubs": ["cr.cube.cube.json.loads -> deep copy of the registered response"],
    "outside": ["histories longer than the enumerated schedules", "an inductive 'arbitrary cached pre-state' formulation (the object graph has ~150 optional cache slots)"],
}

KEY = ["counts", "column_proportions", "row_proportions", "table_proportions", "columns_margin", "rows_margin", "column_labels", "row_labels",
       "zscores", "pvals", "column_std_err", "table_std_err", "column_index", "row_weighted_bases", "column_weighted_bases", "table_weighted_bases",
       "columns_base", "rows_base", "table_base", "population_counts", "inserted_row_idxs", "inserted_column_idxs", "shape", "rows_scale_mean",
       "columns_scale_mean", "row_codes", "column_codes"]
EXCLUDE = {"pairwise_indices", "pairwise_indices_alt", "pairwise_means_indices", "pairwise_means_indices_alt", "rows_scale_median", "columns_scale_median"}


class _JsonStub:
    """stands in for the json module inside cr.cube.cube: 'JSON text' tokens map to deep copies of registered dicts"""
    table = {}

    @staticmethod
    def loads(text):
        return copy.deepcopy(_JsonStub.table[text])


def props_of(part, smoothed=False):
    return [p for p in R.public_props(part) if p not in EXCLUDE and (smoothed or not p.startswith("smoothed"))]


def snapshot(v):
    if isinstance(v, np.ndarray):
        return v.copy()
    return copy.copy(v)


def build(config, eng):
    if config == "cat_x_mr":
        w = CellWorld(eng, [("cat", "a", 2, {"missing_at": (1,), "insertions": [S("r12", [1, 2])]}), ("mr", "m", 3, {})], w_strict=True)
        w.vars[1].item_aliases = ["alpha", "beta", "gamma"]
        w.vars[1].subvar_ids = ["0007", "0008", "0011"]
        tr = {"columns_dimension": {"order": {"type": "explicit", "element_ids": ["gamma", "0007", 99]}, "elements": {"beta": {"name": "B!"}}},
              "rows_dimension": {"insertions": [{"anchor": "top", "function": "subtotal", "name": "t", "args": [1, 2]}], "elements": {"2": {"hide": False}}}}
        return w.response(), tr, 0, 1
    if config == "cat_x_cat":
        w = CellWorld(eng, [("cat", "a", 3, {"missing_at": (1,), "insertions": [S("r12", [1, 2], anchor=1), D("d", [3], [1])], "numeric_values": {1: 1, 2: 2, 3: 4}}),
                            ("cat", "b", 2, {"missing_at": (0,), "insertions": [S("c12", [1, 2])], "numeric_values": {1: 2, 2: 5}})], w_strict=True)
        tr = {"rows_dimension": {"order": {"type": "explicit", "element_ids": [3, 1]}, "elements": {"2": {"hide": True}}}}
        return w.response(), tr, 0, 1
    if config == "waves":
        # id-less insertions in the transforms; an order that refers to the second insertion by its generated id
        w = CellWorld(eng, [("cat", "a", 3, {"missing_at": (3,)}), ("cat", "b", 2, {"missing_at": (0,)})], w_strict=True)
        tr = {"rows_dimension": {"insertions": [{"anchor": "top", "function": "subtotal", "name": "high", "args": [3]},
                                                {"anchor": "bottom", "function": "subtotal", "name": "low", "args": [1, 2]}]},
              "columns_dimension": {"order": {"type": "opposing_insertion", "insertion_id": 2, "measure": "count_weighted", "direction": "ascending"}}}
        return w.response(), tr, 0, 1
    if config == "3d":
        w = CellWorld(eng, [("cat", "t", 2, {"missing_at": (1,)}), ("mr", "m", 2, {}), ("cat", "b", 2, {"missing_at": (0,)})], w_strict=True)
        w.vars[1].item_aliases = ["alpha", "beta"]
        w.vars[1].subvar_ids = ["0007", "0008"]
        tr = {"rows_dimension": {"order": {"type": "explicit", "element_ids": ["beta", 77, "0007"]}, "elements": {"alpha": {"name": "A!"}}},
              "columns_dimension": {"insertions": [{"anchor": "bottom", "function": "subtotal", "name": "all", "args": [1, 2]}]}}
        return w.response(), tr, 0, 2
    if config == "cat_strand":
        # a strand with a sum and a difference subtotal (the population measures blank the difference row)
        w = CellWorld(eng, [("cat", "a", 3, {"missing_at": (1,), "insertions": [S("s12", [1, 2], anchor=2), D("d3-1", [3], [1], anchor="top")],
                                             "numeric_values": {1: 1, 2: 2, 3: 4}})], w_strict=True)
        tr = {"rows_dimension": {"order": {"type": "explicit", "element_ids": [3, 1]}}}
        return w.response(), tr, 0, 1
    if config == "waves_smoothing":
        # categorical-date columns (three waves), numeric values on the rows: the smoothed measures (default window) share their
        # inputs with the unsmoothed ones
        w = CellWorld(eng, [("cat", "a", 2, {"missing_at": (1,), "numeric_values": {1: 1, 2: 3}}),
                            ("catdate", "b", 3, {"missing_at": (0,)})], w_strict=True)
        w.free_measure("mean", "x")
        return w.response(), {}, 0, 1
    if config == "mr_strand":
        w = CellWorld(eng, [("mr", "m", 3, {})], w_strict=True)
        w.vars[0].item_aliases = ["alpha", "beta", "gamma"]
        w.vars[0].subvar_ids = ["0007", "0008", "0011"]
        tr = {"rows_dimension": {"order": {"type": "explicit", "element_ids": [3, "alpha"]}, "elements": {"0008": {"hide": True}}}}
        return w.response(), tr, 0, 1
    raise ValueError(config)


def scenario(eng, config="cat_x_mr", all_pairs=False, light=False):
    resp, tr, k0, nparts = build(config, eng)
    P = eng.pyreal("P", lo=0)

    def fresh_part(k=k0):
        return Cube(copy.deepcopy(resp), transforms=copy.deepcopy(tr), population=P).partitions[k]

    names = props_of(fresh_part(), smoothed=(config == "waves_smoothing"))
    if config == "waves_smoothing":
        keep = ("column_proportions", "column_percentages", "column_index", "columns_scale_mean", "counts", "row_proportions", "table_proportions", "columns_margin", "column_std_err", "means")
        names = [p for p in names if p.startswith("smoothed") or p in keep]
    if config == "waves":
        names = [p for p in names if p in ("counts", "row_labels", "column_labels", "row_codes", "inserted_row_idxs", "rows_margin", "column_proportions", "shape", "payload_order")]
    if light and config != "waves":
        # the 3-D configuration is about argument objects shared across partitions: a smaller property set keeps it fast
        names = [p for p in names if p not in ("zscores", "pvals", "pvalues", "residual_test_stats") and "scale" not in p and "std" not in p and "moe" not in p and "variance" not in p]
    fresh = {}
    for k in range(nparts):
        for p in names:
            fresh[k, p] = R.read(fresh_part(k), p)       # one pristine cube per property: no other read precedes it
    obs = []

    def check(tag, k, p, v):
        obs.extend(R.compare("%s: %s" % (tag, p), v, fresh[k, p]))

    # S1 / S2: full warm-up in two orders, every property read twice
    for tag, order in ((("alphabetical warm-up", names),) if light else (("alphabetical warm-up", names), ("reverse warm-up", names[::-1]))):
        part = fresh_part()
        for p in order:
            check(tag, k0, p, R.read(part, p))
        for p in order:
            check(tag + ", second read", k0, p, R.read(part, p))
    # S3: ordered pairs (Q then P)
    subset = [p for p in (names if all_pairs else KEY) if p in names]
    if light:
        subset = subset[:6]
    for qi, q in enumerate(subset):
        part = fresh_part()
        R.read(part, q)
        rot = subset[qi:] + subset[:qi]
        for p in rot:
            check("after %s" % q, k0, p, R.read(part, p))
    # S4: cubes built from argument objects that were already used (the library rewrites array transforms in place)
    shared_r, shared_t = copy.deepcopy(resp), copy.deepcopy(tr)
    for round_ in (1, 2, 3):
        c = Cube(shared_r, transforms=shared_t, population=P)
        for k in range(nparts):
            part = c.partitions[k]
            for p in (names if round_ < 3 else names[::-1]):
                check("shared argument objects, cube %d, partition %d" % (round_, k), k, p, R.read(part, p))
    # S8: the same transforms object used first with ANOTHER response (an "earlier wave" in which the last row category is
    # missing, so that one insertion of the transforms is dropped there), then with this one
    alt = copy.deepcopy(resp)
    rdim = alt["result"]["dimensions"][0]["type"]
    if "categories" in rdim and config == "waves":
        valid_cats = [c for c in rdim["categories"] if not c.get("missing")]
        valid_cats[-1]["missing"] = True
        shared_t = copy.deepcopy(tr)
        other = Cube(alt, transforms=shared_t, population=P).partitions[0]
        for p in names:
            R.read(other, p)
        part = Cube(copy.deepcopy(resp), transforms=shared_t, population=P).partitions[k0]
        for p in names:
            check("transforms object first used with another response", k0, p, R.read(part, p))
    # S5: two partitions interleaved
    if nparts > 1:
        c = Cube(copy.deepcopy(resp), transforms=copy.deepcopy(tr), population=P)
        pa, pb = c.partitions[0], c.partitions[1]
        for i, p in enumerate(names):
            first, second = ((0, pa), (1, pb)) if i % 2 == 0 else ((1, pb), (0, pa))
            check("interleaved partitions", first[0], p, R.read(first[1], p))
            check("interleaved partitions", second[0], p, R.read(second[1], p))
    # S6: input forms
    saved = cube_module.json
    try:
        cube_module.json = _JsonStub
        _JsonStub.table["<json text>"] = resp
        for tag, arg in (("envelope", {"value": copy.deepcopy(resp)}), ("json text", "<json text>")):
            part = Cube(arg, transforms=copy.deepcopy(tr), population=P).partitions[k0]
            for p in names:
                check("input form %s" % tag, k0, p, R.read(part, p))
    finally:
        cube_module.json = saved
    # S7: cached arrays are not modified by later reads
    part = fresh_part()
    snaps = {}
    for p in names:
        snaps[p] = snapshot(R.read(part, p))
    for p in names[::-1]:
        obs.extend(R.compare("first value of %s still intact after all reads" % p, R.read(part, p), snaps[p]))
        check("snapshot", k0, p, snaps[p])
    return obs


def cubeset_reuse(eng):
    """a multitable built three times from the SAME response dicts (summary cube + single-column filter cube that the library
    re-inflates): every later build reports what a fresh evaluation on pristine copies reports"""
    from symx.inject import SymList
    from .cellworld import NUM_META

    def text_dim(values):
        els = [{"id": i, "missing": False, "value": v} for i, v in enumerate(values)]
        els.append({"id": -1, "missing": True, "value": {"?": -1}})
        return {"derived": False, "references": {"alias": "brand", "name": "brand"},
                "type": {"class": "enum", "elements": els, "subtype": {"class": "text", "missing_reasons": {"No Data": -1}, "missing_rules": {}}}}

    def resp(values, counts, single):
        r = {"element": "crunch:cube", "dimensions": [text_dim(values)], "counts": SymList(list(counts) + [0]), "missing": 0, "n": 12,
             "measures": {"count": {"data": SymList(list(counts) + [0]), "n_missing": 0, "metadata": NUM_META}}}
        if single:
            r["is_single_col_cube"] = True
        return {"result": r}
    su = [eng.real("su%d" % i, strict_lo=0) for i in range(4)]
    fu = [eng.real("fu%d" % i, strict_lo=0) for i in range(2)]
    P = eng.pyreal("P", lo=0)
    tr = [{}, {"rows_dimension": {"elements": {"0": {"hide": True}}}}]
    pristine = [resp(["A", "B", "C", "D"], su, False), resp(["B", "D"], fu, True)]
    names = ("counts", "row_labels", "table_proportions", "unweighted_counts", "shape", "population_counts")

    def read_all(cs):
        out = {}
        for c in (0, 1):
            part = cs.partition_sets[0][c]
            for p in names:
                out[c, p] = R.read(part, p)
        return out
    fresh = read_all(CubeSet(copy.deepcopy(pristine), copy.deepcopy(tr), population=P, min_base=0))
    shared_r, shared_t = copy.deepcopy(pristine), copy.deepcopy(tr)
    obs = []
    for round_ in (1, 2, 3):
        got = read_all(CubeSet(shared_r, shared_t, population=P, min_base=0))
        for (c, p), v in got.items():
            obs += R.compare("cube set built %d. time from the same objects: cube %d %s" % (round_, c, p), v, fresh[c, p])
    return obs


def specs(tier):
    out = []
    for cfg in ("cat_x_mr", "cat_x_cat", "3d", "mr_strand", "cat_strand", "waves", "waves_smoothing"):
        out.append(dict(module="props.c18", fn="scenario", name="%s schedules" % cfg,
                        params=dict(config=cfg, all_pairs=(tier == "thorough" and cfg not in ("3d", "waves")), light=(cfg in ("3d", "waves"))), max_paths=60, vc_timeouts=(5, 40)))
    out.append(dict(module="props.c18", fn="cubeset_reuse", name="cube set rebuilt from the same response objects", params=dict(), max_paths=60, vc_timeouts=(5, 40)))
    return out
