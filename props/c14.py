"""C14 Scale mean, median, standard deviation and error from category numeric values."""
import functools

import numpy as np

from symx.harness import Obs
from symx.scalar import Q

from cr.cube.cube import Cube

from . import common as C
from .cellworld import CellWorld

META = {
    "title": "scale statistics from numeric values",
    "bounds": {
        "quick": {"slice": "CAT(2)+subtotal x CAT(3 valued categories, one optionally without value), both orientations",
                  "strand": "CAT(3)", "numeric values": "symbolic reals (any order, ties, negative)", "counts": "all reals >= 0; integers for the vector medians; integers and truncated reals for the median margins and the strand median"},
        "thorough": {"slice": "CAT(2..3)+subtotal x CAT(3 valued), CAT(2) x CAT(4 valued, no subtotal; the subtotal vector with 4 values is inconclusive in z3 NRA and therefore not claimed)", "strand": "CAT(4)", "numeric values": "symbolic reals", "counts": "as quick"},
    },
    "assumptions": ["weighted counts w >= 0; numeric values arbitrary reals; which categories lack a numeric value is part of the configuration"],
    "stubs": ["np.repeat(values, symbolic integer counts) -> multiset (values, counts); np.median of it by parity of the total and cumulative counts",
              "astype(int64) of a non-negative real -> fresh integer unknown k with k <= x < k + 1"],
    "outside": ["medians of more than 3 value categories in the margins / strand", "sizes beyond the bounds"],
}


def Vn(alias, n, missing_at, values, insertions=None):
    """categorical with numeric values: values[k] for valid category k+1 (None = no value)"""
    nv = {k + 1: v for k, v in enumerate(values)}
    return ("cat", alias, n, {"missing_at": tuple(missing_at), "numeric_values": nv, "insertions": insertions or []})


def _values(eng, n, none_at=()):
    return [None if k in none_at else eng.real("v%d" % k) for k in range(n)]


def _mean_sd(eng, ws, vs):
    """weighted mean / population std-dev of the valued categories; ws, vs lists (None value = skipped)"""
    tot = None
    sv = None
    for w, v in zip(ws, vs):
        if v is None:
            continue
        tot = w if tot is None else tot + w
        sv = w * v if sv is None else sv + w * v
    if tot is None:
        return None, None, None
    mean = C.div(sv, tot)
    num = None
    for w, v in zip(ws, vs):
        if v is None:
            continue
        d = v - mean
        t = w * d * d
        num = t if num is None else num + t
    var = C.div(num, tot)
    return mean, C.sqrt(var), tot


def _median_int(eng, ws, vs):
    """median of the multiset {v_j repeated w_j times} (integer w_j), via cumulative counts; NaN if empty"""
    items = [(v, w) for w, v in zip(ws, vs) if v is not None]

    def cmp(a, b):
        if bool(a[0] < b[0]):
            return -1
        if bool(b[0] < a[0]):
            return 1
        return 0

    items.sort(key=functools.cmp_to_key(cmp))
    N = None
    for v, w in items:
        N = w if N is None else N + w
    if bool(N == 0):
        return C.nan_like(eng)
    # x_k = value of the k-th smallest respondent (1-based): first value whose cumulative count >= k
    # median = (x_ceil(N/2) + x_floor(N/2)+1) / 2 ; both indices found through 2*cum comparisons
    cum = None
    lo = hi = None
    for v, w in items:
        cum = w if cum is None else cum + w
        if lo is None and bool(cum * 2 >= N):          # cum >= ceil(N/2) (integers)      -> holds x_{ceil(N/2)}
            lo = v
        if hi is None and bool(cum * 2 > N):           # cum >= floor(N/2) + 1 (integers) -> holds x_{floor(N/2)+1}
            hi = v
        if lo is not None and hi is not None:
            break
    return (lo + hi) / 2


def slice_stats(eng, orient="rows", nvals=3, none_at=(), nrows=2, subtotal=True, integer=False, median=False, sd_first=False, squared=False):
    vals = _values(eng, nvals, none_at)
    ins = [C.subtotal("S", [1, 2])] if subtotal else []
    if orient == "rows":
        specs = [("cat", "a", nrows, {"missing_at": (1,), "insertions": ins}), Vn("b", nvals, (0,), vals)]
    else:
        specs = [Vn("a", nvals, (0,), vals), ("cat", "b", nrows, {"missing_at": (1,), "insertions": ins})]
    w = CellWorld(eng, specs)
    if integer:
        for n, idx in enumerate(np.ndindex(w.shape)):
            w.W[idx] = eng.intcount("k%d" % n)
    if squared:
        # a squared-weights measure changes the pairwise column tests, never the scale statistics
        SQ = w.free_measure("weighted_squared_count", "q")
        for idx in np.ndindex(w.shape):
            if eng.symbolic:
                eng.assume(Q.lift(SQ[idx]) > 0)
    part = Cube(w.response()).partitions[0]
    vi_vec, vi_val = (0, 1) if orient == "rows" else (1, 0)
    vec_valid = w.valid(vi_vec)
    val_valid = w.valid(vi_val)

    def cell(vec_k, val_k):
        idx = (vec_k, val_k) if orient == "rows" else (val_k, vec_k)
        return w.W[idx]

    vectors = [[k] for k in vec_valid]
    if subtotal:
        vectors.append([vec_valid[0], vec_valid[1]])
    means, sds, ses, meds = [], [], [], []
    nan = C.nan_like(eng)
    for members in vectors:
        ws = []
        full = None
        for val_k in val_valid:
            x = None
            for m in members:
                x = cell(m, val_k) if x is None else x + cell(m, val_k)
            ws.append(x)
            full = x if full is None else full + x
        mean, sd, tot = _mean_sd(eng, ws, vals)
        means.append(mean)
        sds.append(sd)
        ses.append(C.div(sd, C.sqrt(full)))
        if median:
            meds.append(_median_int(eng, ws, vals))
    pre = "rows" if orient == "rows" else "columns"
    obs = []
    if sd_first:
        # the std-dev / std-err are read BEFORE the mean they are computed from
        getattr(part, pre + "_scale_mean_stddev")
        getattr(part, pre + "_scale_mean_stderr")
    if not median:
        obs.append(Obs(pre + "_scale_mean", getattr(part, pre + "_scale_mean"), C.to_array(means)))
        obs.append(Obs(pre + "_scale_mean_stddev", getattr(part, pre + "_scale_mean_stddev"), C.to_array(sds)))
        obs.append(Obs(pre + "_scale_mean_stderr", getattr(part, pre + "_scale_mean_stderr"), C.to_array(ses)))
    else:
        obs.append(Obs(pre + "_scale_median", getattr(part, pre + "_scale_median"), C.to_array(meds)))
    return obs


def margin_median(eng, orient="rows", nvals=3, none_at=(), nrows=2, integer=True):
    """rows/columns_scale_median_margin: median of the opposing dimension's numeric values, each repeated as many times as the
    integer part of its weighted margin over ALL base vectors; None when no category carries a value or nobody is counted"""
    vals = _values(eng, nvals, none_at)
    if orient == "rows":
        specs = [("cat", "a", nrows, {"missing_at": (1,)}), Vn("b", nvals, (0,), vals)]
    else:
        specs = [Vn("a", nvals, (0,), vals), ("cat", "b", nrows, {"missing_at": (1,)})]
    w = CellWorld(eng, specs)
    if integer:
        for n, idx in enumerate(np.ndindex(w.shape)):
            w.W[idx] = eng.intcount("k%d" % n)
    part = Cube(w.response()).partitions[0]
    vi_vec, vi_val = (0, 1) if orient == "rows" else (1, 0)
    ws = []
    for val_k in w.valid(vi_val):
        x = None
        for vec_k in w.valid(vi_vec):
            c = w.W[(vec_k, val_k) if orient == "rows" else (val_k, vec_k)]
            x = c if x is None else x + c
        if eng.symbolic:
            x = Q.lift(x).to_int64()
        else:
            x = float(int(x))
        ws.append(x)
    got = getattr(part, ("rows" if orient == "rows" else "columns") + "_scale_median_margin")
    valued = [(wt, v) for wt, v in zip(ws, vals) if v is not None]
    tot = None
    for wt, v in valued:
        tot = wt if tot is None else tot + wt
    if got is None:
        cond = (Q.lift(tot) == 0) if eng.symbolic else bool(tot == 0)
        return [Obs("scale_median_margin None iff nobody is counted", C.to_array([cond]), kind="holds")]
    want = _median_int(eng, ws, vals)
    return [Obs("scale_median_margin", C.to_array([got]), C.to_array([want]))]


def strand_median(eng, nvals=3, none_at=(), integer=True):
    """_Strand.scale_median: median of the numeric values, each repeated by the integer part of its weighted count"""
    vals = _values(eng, nvals, none_at)
    w = CellWorld(eng, [Vn("a", nvals, (1,), vals)])
    if integer:
        for n, idx in enumerate(np.ndindex(w.shape)):
            w.W[idx] = eng.intcount("k%d" % n)
    part = Cube(w.response()).partitions[0]
    ws = []
    for k in w.valid(0):
        x = w.W[(k,)]
        ws.append(Q.lift(x).to_int64() if eng.symbolic else float(int(x)))
    return [Obs("scale_median", C.to_array([part.scale_median]), C.to_array([_median_int(eng, ws, vals)]))]


def no_values(eng):
    w = CellWorld(eng, [("cat", "a", 2, {"missing_at": (1,)}), ("cat", "b", 2, {"missing_at": (0,)})])
    part = Cube(w.response()).partitions[0]
    return [Obs("rows_scale_mean is None", part.rows_scale_mean, None, kind="same"),
            Obs("columns_scale_mean is None", part.columns_scale_mean, None, kind="same"),
            Obs("rows_scale_median is None", part.rows_scale_median, None, kind="same"),
            Obs("rows_scale_mean_stddev is None", part.rows_scale_mean_stddev, None, kind="same"),
            Obs("rows_scale_mean_stderr is None", part.rows_scale_mean_stderr, None, kind="same")]


def strand_stats(eng, nvals=3, none_at=()):
    vals = _values(eng, nvals, none_at)
    w = CellWorld(eng, [Vn("a", nvals, (1,), vals)])
    part = Cube(w.response()).partitions[0]
    ws = [w.W[(k,)] for k in w.valid(0)]
    mean, sd, tot = _mean_sd(eng, ws, vals)
    obs = []
    impl_mean, impl_sd, impl_se = part.scale_mean, part.scale_std_dev, part.scale_std_err
    if impl_mean is None:
        # the strand reports None for a vector without numeric-valued respondents
        cond = (Q.lift(tot) == 0) if eng.symbolic else bool(tot == 0)
        obs.append(Obs("scale_mean None iff no valued respondent", C.to_array([cond]), kind="holds"))
        obs.append(Obs("scale_std_dev None with it", impl_sd, None, kind="same"))
        obs.append(Obs("scale_std_err None with it", impl_se, None, kind="same"))
        return obs
    cond = (Q.lift(tot) != 0) if eng.symbolic else bool(tot != 0)
    obs.append(Obs("scale_mean defined iff valued respondents", C.to_array([cond]), kind="holds"))
    obs.append(Obs("scale_mean", C.to_array([impl_mean]), C.to_array([mean])))
    obs.append(Obs("scale_std_dev", C.to_array([impl_sd]), C.to_array([sd])))
    obs.append(Obs("scale_std_err", C.to_array([impl_se]), C.to_array([C.div(sd, C.sqrt(tot))])))
    return obs


def strand_no_values(eng):
    w = CellWorld(eng, [("cat", "a", 3, {"missing_at": (1,)})])
    part = Cube(w.response()).partitions[0]
    return [Obs("scale_mean is None", part.scale_mean, None, kind="same"),
            Obs("scale_std_dev is None", part.scale_std_dev, None, kind="same"),
            Obs("scale_std_err is None", part.scale_std_err, None, kind="same"),
            Obs("scale_median is None", part.scale_median, None, kind="same")]


def specs(tier):
    out = []
    M = "props.c14"

    def add(name, fn, params, max_paths=400, to=(5, 40)):
        out.append(dict(module=M, fn=fn, name=name, params=params, max_paths=max_paths, vc_timeouts=to))

    for orient in ("rows", "cols"):
        add("%s mean/sd/se 3 values" % orient, "slice_stats", dict(orient=orient))
        add("%s mean/sd/se one category without value" % orient, "slice_stats", dict(orient=orient, none_at=[1]))
        add("%s mean/sd/se with a squared-weights measure" % orient, "slice_stats", dict(orient=orient, squared=True))
        add("%s sd/se read before the mean, one category without value" % orient, "slice_stats", dict(orient=orient, none_at=[1], sd_first=True))
        add("%s median 3 values" % orient, "slice_stats", dict(orient=orient, integer=True, median=True, subtotal=False, nrows=2), max_paths=2500)
        add("%s median one category without value" % orient, "slice_stats", dict(orient=orient, none_at=[0], integer=True, median=True, subtotal=True), max_paths=2500)
        add("%s median margin, integer counts" % orient, "margin_median", dict(orient=orient), max_paths=2500)
        add("%s median margin, real weights, one category without value" % orient, "margin_median", dict(orient=orient, none_at=[1], integer=False), max_paths=2500)
    add("no numeric values", "no_values", dict())
    add("strand 3 values", "strand_stats", dict())
    add("strand one without value", "strand_stats", dict(none_at=[2]))
    add("strand median 3 values", "strand_median", dict(), max_paths=2500)
    add("strand median real weights, one category without value", "strand_median", dict(none_at=[2], integer=False), max_paths=2500)
    add("strand no values", "strand_no_values", dict())
    if tier == "thorough":
        for orient in ("rows", "cols"):
            add("%s mean/sd/se 4 values (one without), no subtotal" % orient, "slice_stats", dict(orient=orient, nvals=4, nrows=2, none_at=[2], subtotal=False))
            add("%s mean/sd/se 3 values, 3 vectors + subtotal" % orient, "slice_stats", dict(orient=orient, nvals=3, nrows=3))
            add("%s median 4 values" % orient, "slice_stats", dict(orient=orient, nvals=4, integer=True, median=True, subtotal=False, nrows=1), max_paths=20000)
        add("strand 4 values", "strand_stats", dict(nvals=4, none_at=[0]))
    return out
