"""C13 Pairwise column tests: statistic, p-value and index sets."""
import numpy as np

from symx import inject
from symx.harness import Obs
from symx.scalar import Q

from cr.cube.cube import Cube

from . import common as C
from .cellworld import CellWorld
from .c11 import S

META = {
    "title": "pairwise column tests",
    "bounds": {
        "quick": {"t / p": "CAT(2)+row subtotal x CAT(3)+column subtotal: every selected column (base and subtotal), unweighted base or effective base (squared-weight measure); Welch test on means for CAT(2) x CAT(3)",
                  "index sets": "CAT(1 row) x CAT(2)+subtotal column, alpha = 0.05 or (0.05, 0.10), only-larger on/off, explicit column order + hidden column: every 'p < alpha' and 't < 0' comparison forks",
                  "data": "all weighted counts > 0 / >= 0, squared-weight sums > 0, means / std-devs symbolic"},
        "thorough": {"t / p": "CAT(3) x CAT(4)", "index sets": "CAT(2 rows) x CAT(2)+subtotal", "data": "same"},
    },
    "assumptions": ["weighted counts >= 0; unweighted head counts are a free symbolic tensor >= 0 in the t / p scenarios",
                    "Student-t cdf is an uninterpreted function T(x, df) with 0<=T<=1, T>=1/2 for x>=0, T<=1/2 for x<=0, equal arguments give equal values"],
    "stubs": ["scipy.stats.t.cdf -> Ackermannised uninterpreted function"],
    "outside": ["the overlap-corrected t formula itself (inconclusive in z3 on free overlap tensors): only its diagonal, p-from-t and the index sets are claimed for CAT x MR", "legacy pairwise_significance_tests / summary objects", "sizes beyond the bounds"],
}


def _neg(x):
    return -x


def tp_obs(eng, part, eff=None):
    """t and p of every selected display column against the public column proportions and bases"""
    P = part.column_proportions.view(np.ndarray)
    nr, nc = P.shape
    if eff is None:
        n = part.columns_base      # unweighted column base: one value per column, or per cell when the rows are array items
        eff = (lambda i, j: n[i, j]) if getattr(n, "ndim", 1) == 2 else (lambda i, j: n[j])
    elif not callable(eff):
        _e = eff
        eff = lambda i, j: _e[j]      # noqa: E731
    nb = eff
    diff_c = set(int(j) for j in part.diff_column_idxs)
    diff_r = set(int(i) for i in part.diff_row_idxs)
    obs = []
    T = {}
    for a in range(nc):
        if a in diff_c:
            continue
        ta = part.pairwise_significance_t_stats(a).view(np.ndarray)
        pa = part.pairwise_significance_p_vals(a).view(np.ndarray)
        T[a] = ta
        rows = [i for i in range(nr) if i not in diff_r]
        cols = [b for b in range(nc) if b not in diff_c]
        exp_t, got_t, exp_p, got_p = [], [], [], []
        for i in rows:
            for b in cols:
                va = C.div(P[i, a] * (1 - P[i, a]), nb(i, a))
                vb = C.div(P[i, b] * (1 - P[i, b]), nb(i, b))
                exp_t.append(C.div(P[i, b] - P[i, a], C.sqrt(va + vb)))
                got_t.append(ta[i, b])
                df = nb(i, a) + nb(i, b) - 2
                if eng.symbolic:
                    exp_p.append((1 - inject._TStub.cdf(abs(Q.lift(ta[i, b])), df=df)) * 2)
                else:
                    import scipy.stats as st
                    exp_p.append(2 * (1 - st.t.cdf(abs(ta[i, b]), df=df)))
                got_p.append(pa[i, b])
        obs.append(Obs("t_stats(selected=%d)" % a, C.to_array(got_t), C.to_array(exp_t)))
        obs.append(Obs("p_vals(selected=%d)" % a, C.to_array(got_p), C.to_array(exp_p)))
    # antisymmetry, zero diagonal
    keys = sorted(T)
    for x in keys:
        for y in keys:
            if x < y:
                rows = [i for i in range(nr) if i not in diff_r]
                obs.append(Obs("t(%d,%d) == -t(%d,%d)" % (x, y, y, x), C.to_array([T[x][i, y] for i in rows]), C.to_array([_neg(T[y][i, x]) for i in rows])))
    return obs


def tp(eng, squared=False, nr=2, ncols=3):
    rows = ("cat", "a", nr, {"missing_at": (1,), "insertions": [S("r12", [1, 2])]})
    cols = ("cat", "b", ncols, {"missing_at": (0,), "insertions": [S("c12", [1, 2], anchor=1)]})
    w = CellWorld(eng, [rows, cols], u_concrete=None, w_strict=True)
    for idx in np.ndindex(w.shape):
        # strictly positive head counts keep every base positive (zero bases are C03's subject)
        w.eng.assume(Q.lift(w.U[idx]) >= 1) if eng.symbolic else None
    eff = None
    if squared:
        SQ = w.free_measure("weighted_squared_count", "q", lo=None)
        for idx in np.ndindex(w.shape):
            if eng.symbolic:
                eng.assume(Q.lift(SQ[idx]) > 0)
    part = Cube(w.response()).partitions[0]
    if squared:
        m = part.columns_margin
        sb = part.columns_squared_base
        eff = [C.div(m[j] * m[j], sb[j]) for j in range(len(m))]
    return tp_obs(eng, part, eff)


def tp_mr_rows(eng, squared=False):
    """multiple-response ROWS: every row has its own column bases (selected + not selected answers of the item), also for a
    subtotal column as the selected or compared column; with squared weights the effective base (sum w)^2 / sum w^2 per cell"""
    rows = ("mr", "a", 2, {})
    cols = ("cat", "b", 2, {"missing_at": (0,), "insertions": [S("c12", [1, 2], anchor="top")]})
    w = CellWorld(eng, [rows, cols], u_concrete=None, u_strict=True, w_strict=True)
    for idx in np.ndindex(w.shape):
        w.eng.assume(Q.lift(w.U[idx]) >= 1) if eng.symbolic else None
    SQ = None
    if squared:
        SQ = w.free_measure("weighted_squared_count", "q", lo=None)
        for idx in np.ndindex(w.shape):
            if eng.symbolic:
                eng.assume(Q.lift(SQ[idx]) > 0)
    part = Cube(w.response()).partitions[0]
    eff = None
    if squared:
        vc = w.valid(1)
        disp = [list(vc)] + [[k] for k in vc]          # display columns: the subtotal (top), then the base columns

        def eff(i, j):
            sw = sq = None
            for k in disp[j]:
                for plane in (0, 1):
                    sw = w.W[i, plane, k] if sw is None else sw + w.W[i, plane, k]
                    sq = SQ[i, plane, k] if sq is None else sq + SQ[i, plane, k]
            return C.div(sw * sw, sq)
    return tp_obs(eng, part, eff)


def means(eng):
    """Welch's unequal-variance test on cell means"""
    rows = ("cat", "a", 2, {"missing_at": (1,)})
    cols = ("cat", "b", 3, {"missing_at": (0,)})
    w = CellWorld(eng, [rows, cols], u_concrete=None, w_strict=True)
    for idx in np.ndindex(w.shape):
        if eng.symbolic:
            eng.assume(Q.lift(w.U[idx]) >= 2)
    w.free_measure("mean", "x")
    w.free_measure("stddev", "s", lo=0)
    part = Cube(w.response()).partitions[0]
    M = part.means.view(np.ndarray)
    SD = part.stddev.view(np.ndarray)
    N = part.unweighted_counts.view(np.ndarray)      # the counts of the Welch test are the unweighted cell counts
    nr, nc = M.shape
    obs = []
    for a in range(nc):
        ta = part.pairwise_significance_means_t_stats(a).view(np.ndarray)
        pa = part.pairwise_significance_means_p_vals(a).view(np.ndarray)
        exp_t, exp_p = np.empty((nr, nc), dtype=object), np.empty((nr, nc), dtype=object)
        for i in range(nr):
            for b in range(nc):
                va, vb = SD[i, a] * SD[i, a], SD[i, b] * SD[i, b]
                na, nb_ = N[i, a], N[i, b]
                se2 = C.div(va, na) + C.div(vb, nb_)
                exp_t[i, b] = C.div(M[i, b] - M[i, a], C.sqrt(se2))
                num = se2 * se2
                den = C.div(C.div(vb, nb_) * C.div(vb, nb_), nb_ - 1) + C.div(C.div(va, na) * C.div(va, na), na - 1)
                df = C.div(num, den)
                if eng.symbolic:
                    exp_p[i, b] = (1 - inject._TStub.cdf(abs(Q.lift(ta[i, b])), df=df)) * 2
                else:
                    import scipy.stats as st
                    exp_p[i, b] = 2 * (1 - st.t.cdf(abs(ta[i, b]), df=df))
        obs.append(Obs("means_t_stats(selected=%d)" % a, ta, exp_t))
        obs.append(Obs("means_p_vals(selected=%d)" % a, pa, exp_p))
    return obs


def index_sets(eng, alpha=None, only_larger=True, order=None, hide=(), nr=1, subtotal=True):
    rows = ("cat", "a", nr, {"missing_at": (1,)})
    cols = ("cat", "b", 2, {"missing_at": (0,), "insertions": [S("c12", [1, 2])] if subtotal else []})
    w = CellWorld(eng, [rows, cols], u_concrete=5, w_strict=True)
    tr = {"pairwise_indices": {"only_larger": only_larger}}
    if alpha is not None:
        tr["pairwise_indices"]["alpha"] = alpha
    cd = {}
    if order:
        cd["order"] = {"type": "explicit", "element_ids": list(order)}
    if hide:
        cd["elements"] = {str(h): {"hide": True} for h in hide}
    if cd:
        tr["columns_dimension"] = cd
    part = Cube(w.response(), transforms=tr).partitions[0]
    alphas = sorted(alpha) if alpha else [0.05]
    nrow, nc = part.shape
    obs = []
    got = {"pairwise_indices": part.pairwise_indices, "pairwise_indices_alt": part.pairwise_indices_alt}
    PV = [part.pairwise_significance_p_vals(a).view(np.ndarray) for a in range(nc)]
    TS = [part.pairwise_significance_t_stats(a).view(np.ndarray) for a in range(nc)]
    for name, al in (("pairwise_indices", alphas[0]), ("pairwise_indices_alt", alphas[1] if len(alphas) > 1 else None)):
        if al is None:
            obs.append(Obs(name + " is None", got[name] is None, True, kind="same"))
            continue
        exp = []
        for i in range(nrow):
            row = []
            for a in range(nc):
                cell = []
                for b in range(nc):
                    if b == a:
                        continue            # a column is never tested against itself
                    sig = bool(PV[a][i, b] < al)
                    if sig and only_larger:
                        sig = bool(TS[a][i, b] < 0)
                    if sig:
                        cell.append(b)
                row.append(cell)
            exp.append(row)
        g = [[[int(x) for x in got[name][i][a]] for a in range(nc)] for i in range(nrow)]
        obs.append(Obs(name, g, exp, kind="same"))
        obs.append(Obs(name + " never contains the own column", [[a in g[i][a] for a in range(nc)] for i in range(nrow)],
                       [[False] * nc for _ in range(nrow)], kind="same"))
    if len(alphas) > 1:
        prim = got["pairwise_indices"]
        alt = got["pairwise_indices_alt"]
        ok = all(set(int(x) for x in prim[i][a]) <= set(int(x) for x in alt[i][a]) for i in range(nrow) for a in range(nc))
        obs.append(Obs("secondary-alpha sets contain the primary ones", ok, True, kind="same"))
    return obs


def overlaps(eng, index_sets=False, only_larger=False, order=None, alphas=None):
    """CAT x MR with overlap measures: the overlap-corrected test between sub-variable columns"""
    from symx.inject import SymList
    from .cellworld import NUM_META
    nit = 2
    rows = ("cat", "a", 2 if not index_sets else 1, {"missing_at": (1,)})
    cols = ("mr", "m", nit, {})
    w = CellWorld(eng, [rows, cols], u_concrete=4, w_strict=True)
    shape = w.shape + (nit,)
    OV = np.empty(shape, dtype=object)
    VO = np.empty(shape, dtype=object)
    for n, idx in enumerate(np.ndindex(shape)):
        OV[idx] = eng.real("ov%d" % n, strict_lo=0)
        VO[idx] = eng.real("vo%d" % n, strict_lo=0)
    meta = dict(NUM_META, type=dict(NUM_META["type"], subvariables=list(w.vars[1].subvar_ids)))
    w.extra["overlap"] = {"data": SymList(OV.reshape(-1).tolist()), "n_missing": 0, "metadata": meta}
    w.extra["valid_overlap"] = {"data": SymList(VO.reshape(-1).tolist()), "n_missing": 0, "metadata": meta}
    tr = {"pairwise_indices": {"only_larger": only_larger}} if index_sets else None
    if index_sets and alphas:
        tr["pairwise_indices"]["alpha"] = list(alphas)
    if index_sets and order:
        tr["columns_dimension"] = {"order": {"type": "explicit", "element_ids": list(order)}}
    part = Cube(w.response(), transforms=tr).partitions[0]
    P = part.column_proportions.view(np.ndarray)
    vr = w.valid(0)

    def S_(a, b):
        t = None
        for c in vr:
            t = OV[c, a, 0, b] if t is None else t + OV[c, a, 0, b]
        return t

    def N_(a, b):
        t = None
        for c in vr:
            for pl in (0, 1):
                t = VO[c, a, pl, b] if t is None else t + VO[c, a, pl, b]
        return t
    nr = P.shape[0]
    obs = []
    if index_sets:
        PV = [part.pairwise_significance_p_vals(a).view(np.ndarray) for a in range(nit)]
        TS = [part.pairwise_significance_t_stats(a).view(np.ndarray) for a in range(nit)]
        al = sorted(alphas) if alphas else [0.05]
        for name, alpha in (("pairwise_indices", al[0]), ("pairwise_indices_alt", al[1] if len(al) > 1 else None)):
            if alpha is None:
                continue
            got = getattr(part, name)
            g = [[[int(x) for x in got[i][a]] for a in range(nit)] for i in range(nr)]
            obs.append(Obs(name + " never contains the own column", [[a in g[i][a] for a in range(nit)] for i in range(nr)],
                           [[False] * nit for _ in range(nr)], kind="same"))
            exp = []
            for i in range(nr):
                row = []
                for a in range(nit):
                    cell = []
                    for b in range(nit):
                        if b == a:
                            continue
                        sig = bool(PV[a][i, b] < alpha)
                        if sig and only_larger:
                            sig = bool(TS[a][i, b] < 0)
                        if sig:
                            cell.append(b)
                    row.append(cell)
                exp.append(row)
            obs.append(Obs(name, g, exp, kind="same"))
        return obs
    for a in range(nit):
        ta = part.pairwise_significance_t_stats(a).view(np.ndarray)
        pa_ = part.pairwise_significance_p_vals(a).view(np.ndarray)
        exp_t, exp_p = np.empty((nr, nit), dtype=object), np.empty((nr, nit), dtype=object)
        for i in range(nr):
            for b in range(nit):
                if a == b:
                    exp_t[i, b] = Q.lift(0) if eng.symbolic else 0.0
                    continue
                pa = C.div(S_(a, a), N_(a, a))
                pb = C.div(S_(b, b), N_(b, b))
                pab = C.div(S_(a, b), N_(a, b))
                df = N_(a, a) + N_(b, b) - N_(a, b)
                var = C.div(pa * (1 - pa) + pb * (1 - pb) + pa * pb * 2 - pab * 2, df)
                exp_t[i, b] = C.div(P[i, b] - P[i, a], C.sqrt(var))
                if eng.symbolic:
                    exp_p[i, b] = (1 - inject._TStub.cdf(abs(Q.lift(ta[i, b])), df=df - 2)) * 2
                else:
                    import scipy.stats as st
                    exp_p[i, b] = 2 * (1 - st.t.cdf(abs(ta[i, b]), df=df - 2))
        # the t formula itself (free overlap tensors: 32 unconstrained reals under a radical) is inconclusive in z3 within
        # the time limit and is not claimed; the diagonal and the p-from-t relation are
        obs.append(Obs("overlap t_stats(selected=%d) diagonal" % a, C.to_array([ta[i, a] for i in range(nr)]), C.to_array([exp_t[i, a] for i in range(nr)])))
        keep = [(i, b) for i in range(nr) for b in range(nit) if b != a]
        obs.append(Obs("overlap p_vals(selected=%d)" % a, C.to_array([pa_[ib] for ib in keep]), C.to_array([exp_p[ib] for ib in keep])))
    return obs


def specs(tier):
    out = []
    M = "props.c13"

    def add(name, fn, params, max_paths=2000):
        d = dict(module=M, fn=fn, name=name, params=params, max_paths=max_paths, vc_timeouts=(5, 40))
        if fn == "overlaps" and params.get("index_sets"):
            # p < alpha forks over the overlap-corrected statistic: z3 5.1's default arithmetic core took between 55 s and 6 min
            # for the same scenario from run to run (a query outliving its timeout); the older core is steady at ~75 s
            d["feas_opts"] = {"arith.solver": 2}
        out.append(d)

    add("t/p unweighted base", "tp", dict())
    add("t/p effective base (squared weights)", "tp", dict(squared=True))
    add("t/p multiple-response rows (per-row bases), subtotal column", "tp_mr_rows", dict())
    add("t/p multiple-response rows, effective base (squared weights)", "tp_mr_rows", dict(squared=True))
    add("welch means", "means", dict())
    add("index sets default alpha, only larger", "index_sets", dict())
    add("index sets two alphas, not only larger", "index_sets", dict(alpha=[0.10, 0.05], only_larger=False))
    add("index sets with explicit column order", "index_sets", dict(order=[2, 1], only_larger=False))
    add("index sets with hidden column", "index_sets", dict(hide=[1], alpha=[0.05, 0.2]))
    add("overlap index sets, not only larger", "overlaps", dict(index_sets=True, only_larger=False))
    add("overlap index sets, two alphas, columns reordered", "overlaps", dict(index_sets=True, only_larger=False, order=[2, 1], alphas=[0.05, 0.2]))
    if tier == "thorough":
        add("overlap-corrected t/p diagonal and p-from-t (cat x mr)", "overlaps", dict())
        add("overlap index sets, only larger", "overlaps", dict(index_sets=True, only_larger=True))
        add("t/p 3x4", "tp", dict(nr=3, ncols=4))
        # two rows x three columns (six independent p < alpha forks over uninterpreted cdf values) ran 40 min: two columns instead
        add("index sets 2 rows, 2 columns", "index_sets", dict(nr=2, only_larger=False, subtotal=False), max_paths=2000)
    return out
