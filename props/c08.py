"""C08 Sort-by-value ordering is monotone in the requested measure."""
import numpy as np

from symx.harness import Obs
from symx.scalar import Q, SymBool

from cr.cube.cube import Cube

from . import common as C
from .cellworld import CellWorld
from .c11 import D, S

META = {
    "title": "sort-by-value is monotone in the public measure",
    "bounds": {
        "quick": {"tables": "CAT(3) x CAT(2) with two row subtotals (one difference) and a column subtotal; CAT(3) strand; columns sorted by a base row",
                  "sort kinds": "opposing element (12 measure keywords), opposing insertion, marginal (weighted base, unweighted base, table proportion, scale mean), label, univariate measure (strand), both directions, fixed top/bottom lists, hidden element",
                  "fallbacks": "unknown element id, unknown insertion id, measure absent from the response -> anchored payload order",
                  "data": "all weighted counts >= 0 (ties, zero bases / NaN keys included), population symbolic"},
        "thorough": {"tables": "as quick + CAT(4) x CAT(3)", "sort kinds": "all keywords of the opposing-element table", "data": "same"},
    },
    "assumptions": ["weighted counts >= 0; head counts fixed", "every comparison made by the library's sort forks the path; the order is checked on each path against the PUBLIC measure"],
    "outside": ["sizes beyond the bounds", "pairwise-t-test sort keyword", "marginal scale_mean_stderr and the measure keywords p_value, row_percent_moe, col_percent_moe, row_std_err, table_std_dev (solver does not finish; one representative per radical family is kept)"],
}

# transform keyword -> public property holding the values the order must be monotone in
MEASURE_PROP = {
    "col_percent": "column_proportions", "row_percent": "row_proportions", "table_percent": "table_proportions",
    "count_weighted": "counts", "count_unweighted": "unweighted_counts",
    "col_base_weighted": "column_weighted_bases", "col_base_unweighted": "column_unweighted_bases",
    "row_base_weighted": "row_weighted_bases", "row_base_unweighted": "row_unweighted_bases",
    "table_base_weighted": "table_weighted_bases", "table_base_unweighted": "table_unweighted_bases",
    "col_std_dev": "column_std_dev", "col_std_err": "column_std_err", "col_percent_moe": "column_proportions_moe",
    "row_std_dev": "row_std_dev", "row_std_err": "row_std_err", "row_percent_moe": "row_proportions_moe",
    "table_std_dev": "table_std_dev", "table_std_err": "table_std_err", "table_percent_moe": "table_proportions_moe",
    "z_score": "zscores", "p_value": "pvals", "population": "population_counts", "population_moe": "population_counts_moe",
    "col_index": "column_index",
}
MARGINAL_PROP = {"weighted_base": "rows_margin", "unweighted_base": "rows_base", "table_proportion": "rows_margin_proportion",
                 "scale_mean": "rows_scale_mean", "scale_mean_stddev": "rows_scale_mean_stddev", "scale_mean_stderr": "rows_scale_mean_stderr"}
STRAND_PROP = {"count_weighted": "counts", "count_unweighted": "unweighted_counts", "percent": "table_proportions",
               "base_weighted": "weighted_bases", "base_unweighted": "unweighted_bases", "percent_stderr": "table_proportion_stderrs",
               "percent_moe": "table_proportion_moes", "percent_stddev": "table_proportion_stddevs",
               "population": "population_counts", "population_moe": "population_counts_moe"}


def _isnan(eng, x):
    if eng.symbolic:
        return bool(Q.lift(x).isnan())
    return bool(np.isnan(x))


def _ge(eng, a, b):
    if eng.symbolic:
        return Q.lift(a) >= b
    return bool(a >= b)


def structure_obs(eng, order, values, descending, top_ids, bottom_ids, elem_ids, hidden=()):
    """order: displayed signed indexes; values: displayed values (same length); elem_ids: id of base element idx"""
    obs = []
    n = len(order)
    subs = [i for i, s in enumerate(order) if s < 0]
    base = [i for i, s in enumerate(order) if s >= 0]
    # subtotals form one group, first when descending and last when ascending
    exp_subs = list(range(len(subs))) if descending else list(range(n - len(subs), n))
    obs.append(Obs("subtotal group position", subs, exp_subs, kind="same"))
    idx_of = {eid: k for k, eid in enumerate(elem_ids)}
    top = [idx_of[e] for e in top_ids if e in idx_of and idx_of[e] not in hidden]
    bottom = [idx_of[e] for e in bottom_ids if e in idx_of and idx_of[e] not in hidden]
    shown = [order[i] for i in base]
    obs.append(Obs("fixed top elements lead in listed order", shown[:len(top)], top, kind="same"))
    obs.append(Obs("fixed bottom elements trail in listed order", shown[len(shown) - len(bottom):] if bottom else [], bottom, kind="same"))
    body_pos = base[len(top):len(base) - len(bottom)]
    obs.append(Obs("every visible element appears once", sorted(shown), sorted(set(range(len(elem_ids))) - set(hidden)), kind="same"))

    def monotone(positions, label):
        conds = []
        nan_seen = False
        nan_elems = []
        prev = None
        for i in positions:
            v = values[i]
            if _isnan(eng, v):
                nan_seen = True
                nan_elems.append(order[i])
                continue
            if nan_seen:
                conds.append(False)          # a defined value after a NaN one
                continue
            if prev is not None:
                conds.append(_ge(eng, prev, v) if descending else _ge(eng, v, prev))
            prev = v
        out = [Obs("%s monotone in the public measure, NaN last" % label, C.to_array(conds if conds else [True]), kind="holds")]
        return out, nan_elems

    o1, nan_elems = monotone(body_pos, "base elements")
    obs += o1
    obs.append(Obs("NaN-valued elements in payload order", nan_elems, sorted(nan_elems), kind="same"))
    o2, _ = monotone(subs, "subtotal group")
    obs += o2
    return obs


ROWS = ("cat", "a", 3, {"missing_at": (1,), "insertions": [S("r12", [1, 2], anchor=1), D("r3-1", [3], [1])], "numeric_values": None})
COLS = ("cat", "b", 2, {"missing_at": (0,), "insertions": [S("c12", [1, 2], anchor="top")], "numeric_values": {1: 1, 2: 3}})


def by_opposing_element(eng, measure="col_percent", direction="descending", fixed=None, strict=False, hide=(), element_id=2, rows=None):
    rows = rows or ROWS
    w = CellWorld(eng, [rows, COLS], w_strict=strict)
    P = eng.pyreal("P", lo=0)
    order = {"type": "opposing_element", "element_id": element_id, "measure": measure, "direction": direction}
    if fixed:
        order["fixed"] = fixed
    tr = {"rows_dimension": {"order": order}}
    if hide:
        tr["rows_dimension"]["elements"] = {str(h): {"hide": True} for h in hide}
    T = Cube(w.response(), transforms=tr, population=P).partitions[0]
    U = Cube(w.response(), population=P).partitions[0]
    rorder = [int(i) for i in T.row_order()]
    elem_ids = w.cat_ids(0)
    col_ids = w.cat_ids(1)
    if element_id not in col_ids or measure not in MEASURE_PROP:
        # unresolvable sort key: anchored payload order, no exception
        return [Obs("fallback to payload order", rorder, [int(i) for i in U.row_order()], kind="same")]
    corder = [int(i) for i in T.column_order()]
    jc = corder.index(col_ids.index(element_id))
    M = getattr(T, MEASURE_PROP[measure]).view(np.ndarray)
    values = [M[i, jc] for i in range(len(rorder))]
    hidden = [elem_ids.index(h) for h in hide]
    return structure_obs(eng, rorder, values, direction != "ascending", (fixed or {}).get("top", []), (fixed or {}).get("bottom", []), elem_ids, hidden)


def by_marginal(eng, marginal="weighted_base", direction="descending", fixed=None, strict=False):
    rows = ("cat", "a", 3, {"missing_at": (1,), "insertions": [S("r12", [1, 2], anchor=1), S("r23", [2, 3])]})
    w = CellWorld(eng, [rows, COLS], w_strict=strict)
    order = {"type": "marginal", "marginal": marginal, "direction": direction}
    if fixed:
        order["fixed"] = fixed
    T = Cube(w.response(), transforms={"rows_dimension": {"order": order}}).partitions[0]
    rorder = [int(i) for i in T.row_order()]
    M = getattr(T, MARGINAL_PROP[marginal])
    values = [M[i] for i in range(len(rorder))]
    return structure_obs(eng, rorder, values, direction != "ascending", (fixed or {}).get("top", []), (fixed or {}).get("bottom", []), w.cat_ids(0))


def by_opposing_insertion(eng, insertion_id=1, measure="count_weighted", direction="descending"):
    w = CellWorld(eng, [ROWS, COLS])
    tr = {"rows_dimension": {"order": {"type": "opposing_insertion", "insertion_id": insertion_id, "measure": measure, "direction": direction}}}
    T = Cube(w.response(), transforms=tr).partitions[0]
    U = Cube(w.response()).partitions[0]
    rorder = [int(i) for i in T.row_order()]
    if insertion_id != 1:
        return [Obs("fallback to payload order", rorder, [int(i) for i in U.row_order()], kind="same")]
    corder = [int(i) for i in T.column_order()]
    jc = corder.index(-1)
    M = getattr(T, MEASURE_PROP[measure]).view(np.ndarray)
    values = [M[i, jc] for i in range(len(rorder))]
    return structure_obs(eng, rorder, values, direction != "ascending", [], [], w.cat_ids(0))


def rows_by_derived_ca_column(eng, direction="descending"):
    """categorical array sliced as categories (rows) x sub-variables (columns); one sub-variable column is a derived insertion
    computed by the backend; rows sorted by that opposing insertion (repository fixture ca-cat-x-ca-subvar.json as template,
    three valid categories, weighted counts symbolic)"""
    import json
    from symx.inject import SymList
    raw = json.load(open("/repo/tests/fixtures/ca-cat-x-ca-subvar.json"))
    res = raw.get("value", raw)["result"]
    cats = res["dimensions"][0]["type"]["categories"]
    for c in cats:
        if c["id"] in (4, 5):
            c["missing"] = True
    brown = res["dimensions"][1]["type"]["elements"][1]["value"]
    brown["derived"] = True
    brown["references"]["anchor"] = {"position": "after", "alias": "douglass"}
    n = len(res["counts"])
    res["measures"]["count"]["data"] = SymList([eng.real("w%d" % k, lo=0) for k in range(n)])
    tr = {"rows_dimension": {"order": {"type": "opposing_insertion", "insertion_id": "brown", "measure": "col_percent", "direction": direction}}}
    T = Cube(raw, transforms=tr).partitions[0]
    rorder = [int(i) for i in T.row_order()]
    corder = [int(i) for i in T.column_order()]
    jc = corder.index(1)
    M = T.column_proportions.view(np.ndarray)
    values = [M[i, jc] for i in range(len(rorder))]
    return structure_obs(eng, rorder, values, direction != "ascending", [], [], [0, 2, 3])


def columns_by_base_row(eng, element_id=3, measure="row_percent", direction="ascending"):
    cols = ("cat", "b", 3, {"missing_at": (0,), "insertions": [S("c12", [1, 2])]})
    rows = ("cat", "a", 3, {"missing_at": (1,)})
    w = CellWorld(eng, [rows, cols])
    tr = {"columns_dimension": {"order": {"type": "opposing_element", "element_id": element_id, "measure": measure, "direction": direction, "fixed": {"top": [2]}}}}
    T = Cube(w.response(), transforms=tr).partitions[0]
    corder = [int(i) for i in T.column_order()]
    rorder = [int(i) for i in T.row_order()]
    ir = rorder.index(w.cat_ids(0).index(element_id))
    M = getattr(T, MEASURE_PROP[measure]).view(np.ndarray)
    values = [M[ir, j] for j in range(len(corder))]
    return structure_obs(eng, corder, values, direction != "ascending", [2], [], w.cat_ids(1))


def columns_by_inserted_row(eng, insertion_id=2, measure="count_weighted", direction="descending", override=False):
    """columns (with two column subtotals) sorted by an inserted (subtotal) row. override: the analysis re-lists the row
    subtotals of the variable (with ids) in the opposite order - the sort key is the row with the requested id"""
    cols = ("cat", "b", 3, {"missing_at": (0,), "insertions": [S("c12", [1, 2]), S("c23", [2, 3], anchor=1)]})
    rins = [S("r12", [1, 2], anchor="top"), S("r23", [2, 3])]
    if override:
        rins = [dict(rins[0], id=1), dict(rins[1], id=2)]
    rows = ("cat", "a", 3, {"missing_at": (1,), "insertions": rins})
    w = CellWorld(eng, [rows, cols])
    tr = {"columns_dimension": {"order": {"type": "opposing_insertion", "insertion_id": insertion_id, "measure": measure, "direction": direction}}}
    if override:
        tr["rows_dimension"] = {"insertions": [dict(rins[1]), dict(rins[0])]}
    T = Cube(w.response(), transforms=tr).partitions[0]
    corder = [int(i) for i in T.column_order()]
    rorder = [int(i) for i in T.row_order()]
    if override:
        # negative offsets follow the analysis list: -2 = r23 (id 2), -1 = r12 (id 1)
        ir = rorder.index(-2 if insertion_id == 2 else -1)
    else:
        # insertion ids of view insertions without ids: 1-based rank in payload display order: r12 (top) = 1, r23 (bottom) = 2
        ir = rorder.index(-1 if insertion_id == 2 else -2)
    M = getattr(T, MEASURE_PROP[measure]).view(np.ndarray)
    values = [M[ir, j] for j in range(len(corder))]
    return structure_obs(eng, corder, values, direction != "ascending", [], [], w.cat_ids(1))


def by_label(eng, direction="ascending"):
    w = CellWorld(eng, [ROWS, COLS])
    T = Cube(w.response(), transforms={"rows_dimension": {"order": {"type": "label", "direction": direction, "fixed": {"bottom": [2]}}}}).partitions[0]
    rorder = [int(i) for i in T.row_order()]
    labels = [str(x).lower() for x in T.row_labels]
    body = [labels[i] for i, s in enumerate(rorder) if s >= 0][:-1]
    exp = sorted(body, reverse=(direction != "ascending"))
    return [Obs("labels sorted", body, exp, kind="same"),
            Obs("fixed bottom last", rorder[-1] if direction != "ascending" else [s for s in rorder if s >= 0][-1], 1, kind="same")]


def strand_by_measure(eng, measure="count_weighted", direction="descending", fixed=None):
    rows = ("cat", "a", 4, {"missing_at": (1,), "insertions": [S("s12", [1, 2], anchor=1), S("s34", [3, 4])]})
    w = CellWorld(eng, [rows])
    P = eng.pyreal("P", lo=0)
    order = {"type": "univariate_measure", "measure": measure, "direction": direction}
    if fixed:
        order["fixed"] = fixed
    T = Cube(w.response(), transforms={"rows_dimension": {"order": order}}, population=P).partitions[0]
    U = Cube(w.response(), population=P).partitions[0]
    rorder = [int(i) for i in T.row_order()]
    if measure not in STRAND_PROP:
        return [Obs("fallback to payload order", rorder, [int(i) for i in U.row_order()], kind="same")]
    M = getattr(T, STRAND_PROP[measure])
    values = [M[i] for i in range(len(rorder))]
    return structure_obs(eng, rorder, values, direction != "ascending", (fixed or {}).get("top", []), (fixed or {}).get("bottom", []), w.cat_ids(0))


def specs(tier):
    out = []
    M = "props.c08"

    # z3 5.1's default arithmetic core does not honour its timeout inside nla monomial patching on the sign/square
    # comparisons of radical sort keys (one feasibility query ran > 35 min); the older core (arith.solver=2) does
    OLD_CORE = {"arith.solver": 2}

    def add(name, fn, params, max_paths=1500):
        d = dict(module=M, fn=fn, name=name, params=params, max_paths=max_paths, vc_timeouts=(5, 40))
        if any(x in name for x in ("row_std_dev", "scale_mean_std")):
            d["feas_opts"] = OLD_CORE
        out.append(d)

    quick_measures = ["col_percent", "row_percent", "count_weighted", "col_base_weighted", "col_std_dev", "col_std_err", "population", "row_base_unweighted", "table_percent", "count_unweighted"]
    # thorough: every keyword except the three slowest radical ones kept to one representative each
    all_measures = [m for m in sorted(MEASURE_PROP) if m not in ("p_value", "row_percent_moe", "col_percent_moe", "row_std_err", "table_std_dev")]
    RADICAL = ("std_dev", "std_err", "moe", "z_score", "p_value")
    small = ("cat", "a", 2, {"missing_at": (1,), "insertions": [S("r12", [1, 2])]})
    for k, m in enumerate(quick_measures if tier == "quick" else all_measures):
        params = dict(measure=m, direction="descending" if k % 2 == 0 else "ascending")
        if any(m.endswith(x) or m == x for x in RADICAL):
            # comparisons of radical values (signs and squares) are non-linear feasibility queries: two base rows, positive counts
            params.update(rows=small, strict=True)
        add("rows by column %s %s" % (m, "desc" if k % 2 == 0 else "asc"), "by_opposing_element", params)
    add("rows by col_percent, fixed top+bottom, NaN keys possible", "by_opposing_element",
        dict(measure="row_percent", direction="descending", fixed={"top": [3], "bottom": [1]}, rows=("cat", "a", 4, {"missing_at": (1,), "insertions": [S("r12", [1, 2])]})))
    add("rows by col_percent, hidden element", "by_opposing_element", dict(measure="col_percent", direction="ascending", hide=[2]))
    add("rows by unknown element id", "by_opposing_element", dict(measure="col_percent", element_id=77))
    add("rows by measure absent from the response", "by_opposing_element", dict(measure="mean"))
    add("rows by inserted column", "by_opposing_insertion", dict())
    add("rows by a derived sub-variable column of a categorical array", "rows_by_derived_ca_column", dict())
    add("rows by unknown insertion id", "by_opposing_insertion", dict(insertion_id=9))
    # scale_mean_stderr is not claimed: its feasibility queries (radical over a ratio of quadratic forms) do not finish in 15 min
    for mg in ("weighted_base", "table_proportion") if tier == "quick" else ("scale_mean", "scale_mean_stddev", "table_proportion", "unweighted_base", "weighted_base"):
        add("rows by marginal %s" % mg, "by_marginal", dict(marginal=mg, direction="ascending" if mg == "weighted_base" else "descending", fixed={"top": [2]}))
    add("columns by base row", "columns_by_base_row", dict())
    add("columns by inserted row desc", "columns_by_inserted_row", dict())
    add("columns by inserted row, analysis re-lists the variable's subtotals in another order", "columns_by_inserted_row", dict(insertion_id=2, override=True))
    add("columns by inserted row asc (col_percent)", "columns_by_inserted_row", dict(insertion_id=1, measure="col_percent", direction="ascending"))
    add("rows by label", "by_label", dict())
    add("strand by count desc, fixed bottom", "strand_by_measure", dict(fixed={"bottom": [2]}))
    add("strand by percent asc", "strand_by_measure", dict(measure="percent", direction="ascending"))
    add("strand by base_weighted desc", "strand_by_measure", dict(measure="base_weighted"))
    add("strand by population desc", "strand_by_measure", dict(measure="population"))
    add("strand by unknown measure", "strand_by_measure", dict(measure="mean"))
    return out
