"""C16 Column index compares column share with the unconditional row share."""
import numpy as np

from symx.harness import Obs
from symx.scalar import Q

from cr.cube.cube import Cube

from . import common as C
from .c01 import V
from .c02 import Vs

META = {
    "title": "column index = 100 * column share / unconditional row share",
    "bounds": {
        "quick": {"cat_valid": 2, "missing": "one missing category at every position of rows / columns / table", "mr_items": 2,
                  "pairs": "CAT x CAT, CAT x MR, MR x CAT, MR x MR; 3-D with CAT and MR table dimension (one scenario per partition)",
                  "subtotals": "one bottom-anchored row / column subtotal (must be NaN)", "data": "all pattern masses m,u >= 0",
                  "wire-level (one unknown per wire cell)": "CAT(3) x CAT(4) with two missing categories each, CAT(3) x MR(3), MR(3) x CAT(3)"},
        "thorough": {"cat_valid": 3, "missing": "up to 2 missing categories", "mr_items": "2-3", "data": "all pattern masses",
                     "wire-level (one unknown per wire cell)": "MR(3) x MR(3), CAT(5) x CAT(5), 3-D CAT(3) x CAT(3) x CAT(3), CAT(3) x MR(3) x CAT(3), MR(3) x CAT(3) x MR(2)"},
    },
    "assumptions": ["A1: pattern masses m[p] >= 0, u[p] >= 0", "tabulator models the backend wire layout; floats are reals"],
    "outside": ["categorical-array dimensions (column index is not defined across sub-variables)", "sizes beyond the bounds"],
}


def index_obs(eng, world, part, tax, t, rax, cax, tag="", weighted=True):
    wm = "m" if weighted else "u"
    extra = (lambda p: tax.member(t, p)) if tax is not None else (lambda p: True)
    rows = []
    for i in range(len(rax)):
        row = []
        for j in range(len(cax)):
            if rax.elems[i][0] == "sub" or cax.elems[j][0] == "sub":
                row.append(C.nan_like(eng))
                continue
            cnt = world.mass(lambda p: extra(p) and rax.member(i, p) and cax.member(j, p), wm)
            colbase = world.mass(lambda p: extra(p) and cax.member(j, p) and rax.valid(i, p), wm)
            # unconditional share of the row element: regardless of the column answer (valid or missing)
            members = world.mass(lambda p: extra(p) and rax.member(i, p) and cax.asked(j, p), wm)
            eligible = world.mass(lambda p: extra(p) and rax.valid(i, p) and cax.asked(j, p), wm)
            colprop = C.div(cnt, colbase)
            share = C.div(members, eligible)
            row.append(C.div(colprop, share) * 100)
        rows.append(row)
    return [Obs(tag + "column_index", part.column_index, C.to_array(rows))]


def two_d(eng, rows, cols, weighted=True, wire=False, smoothed_first=False):
    from .wire import world_for
    world = world_for(eng, [rows, cols], wire)
    part = Cube(world.response(weighted=weighted, assume_weighted=True)).partitions[0]
    if smoothed_first:
        part.smoothed_column_index      # the smoothed index (default window) is read BEFORE the index it is computed from
    _, rax, cax = C.slice_axes(world)
    return index_obs(eng, world, part, None, None, rax, cax, weighted=weighted)


def three_d(eng, table, rows, cols, k=0, wire=False):
    from .wire import world_for
    world = world_for(eng, [table, rows, cols], wire)
    part = Cube(world.response(assume_weighted=True)).partitions[k]
    tax, rax, cax = C.slice_axes(world)
    return index_obs(eng, world, part, tax, k, rax, cax, tag="p%d." % k)


def valid_counts(eng, cols_kind="cat"):
    """a weighted response carrying a mean with weighted AND unweighted valid counts: counts, bases and the unconditional
    row share are all taken from the weighted valid counts"""
    from .cellworld import CellWorld
    rows = ("cat", "a", 2, {"missing_at": (1,)})
    cols = ("cat", "b", 2, {"missing_at": (0,)}) if cols_kind == "cat" else ("mr", "b", 2, {})
    w = CellWorld(eng, [rows, cols])
    w.free_measure("mean", "x")
    VW = w.free_measure("valid_count_weighted", "vw", lo=0)
    w.free_measure("valid_count_unweighted", "vu", lo=0)
    part = Cube(w.response()).partitions[0]
    vr = w.valid(0)
    out = []
    if cols_kind == "cat":
        vc = w.valid(1)
        allc = range(w.shape[1])
        tot = None
        for i in vr:
            for j in allc:
                tot = VW[i, j] if tot is None else tot + VW[i, j]
        for i in vr:
            row = []
            rowall = None
            for j in allc:
                rowall = VW[i, j] if rowall is None else rowall + VW[i, j]
            for j in vc:
                colbase = None
                for ii in vr:
                    colbase = VW[ii, j] if colbase is None else colbase + VW[ii, j]
                row.append(C.div(C.div(VW[i, j], colbase), C.div(rowall, tot)) * 100)
            out.append(row)
    else:
        for i in vr:
            row = []
            for j in range(2):
                colbase = None
                for ii in vr:
                    colbase = VW[ii, j, 0] if colbase is None else colbase + VW[ii, j, 0]
                rowall = VW[i, j, 0] + VW[i, j, 1] + VW[i, j, 2]
                tot = None
                for ii in vr:
                    t = VW[ii, j, 0] + VW[ii, j, 1] + VW[ii, j, 2]
                    tot = t if tot is None else tot + t
                row.append(C.div(C.div(VW[i, j, 0], colbase), C.div(rowall, tot)) * 100)
            out.append(row)
    return [Obs("column_index (valid counts)", part.column_index, C.to_array(out))]


def specs(tier):
    out = []
    M = "props.c16"

    def add(name, fn, params, max_paths=200):
        out.append(dict(module=M, fn=fn, name=name, params=params, max_paths=max_paths, vc_timeouts=(5, 40)))

    for ma in [(0,), (1,), (2,)]:
        add("cat%s x cat(1)" % (ma,), "two_d", dict(rows=V("cat", "a", 2, ma), cols=V("cat", "b", 2, (1,))))
        add("cat(1) x cat%s" % (ma,), "two_d", dict(rows=V("cat", "a", 2, (1,)), cols=V("cat", "b", 2, ma)))
    add("cat x mr", "two_d", dict(rows=V("cat", "a", 2, (1,)), cols=V("mr", "b", 2)))
    add("mr x cat", "two_d", dict(rows=V("mr", "a", 2), cols=V("cat", "b", 2, (0,))))
    add("mr x mr", "two_d", dict(rows=V("mr", "a", 2), cols=V("mr", "b", 2)))
    add("cat+sub x cat+sub", "two_d", dict(rows=Vs("cat", "a", 2, (1,), sub=[1, 2]), cols=Vs("cat", "b", 2, (0,), sub=[1, 2])))
    add("cat x cat with weighted and unweighted valid counts", "valid_counts", dict())
    add("cat x mr with weighted and unweighted valid counts", "valid_counts", dict(cols_kind="mr"))
    add("cat x cat unweighted", "two_d", dict(rows=V("cat", "a", 2, (1,)), cols=V("cat", "b", 2, (0,)), weighted=False))
    for k in (0, 1):
        add("3d cat(missing middle) x cat x cat p%d" % k, "three_d", dict(table=V("cat", "t", 2, (1,)), rows=V("cat", "a", 2, (0,)), cols=V("cat", "b", 2, (2,)), k=k))
        add("3d cat(missing first) x cat x cat p%d" % k, "three_d", dict(table=V("cat", "t", 2, (0,)), rows=V("cat", "a", 2, (1,)), cols=V("cat", "b", 2, (1,)), k=k))
    add("3d mr x cat x cat p1", "three_d", dict(table=V("mr", "t", 2), rows=V("cat", "a", 2, (1,)), cols=V("cat", "b", 2, (1,)), k=1))
    add("3d cat(missing middle) x mr x cat p1", "three_d", dict(table=V("cat", "t", 2, (1,)), rows=V("mr", "a", 2), cols=V("cat", "b", 2, (1,)), k=1))
    add("wire cat3(0,2) x cat4(1,3)", "two_d", dict(rows=V("cat", "a", 3, (0, 2)), cols=V("cat", "b", 4, (1, 3)), wire=True))
    add("wire cat3 x mr3", "two_d", dict(rows=V("cat", "a", 3, (1,)), cols=V("mr", "b", 3), wire=True))
    add("wire mr3 x cat3", "two_d", dict(rows=V("mr", "a", 3), cols=V("cat", "b", 3, (3,)), wire=True))
    add("wire cat x catdate(3 waves), smoothed index read first", "two_d", dict(rows=V("cat", "a", 2, (1,)), cols=V("catdate", "b", 3, (0,)), wire=True, smoothed_first=True))
    if tier == "thorough":
        add("wire mr3 x mr3", "two_d", dict(rows=V("mr", "a", 3), cols=V("mr", "b", 3), wire=True))
        add("wire cat5(0,3) x cat5(2,)", "two_d", dict(rows=V("cat", "a", 5, (0, 3)), cols=V("cat", "b", 5, (2,)), wire=True))
        add("wire 3d cat3(1,) x cat3 x cat3 p2", "three_d", dict(table=V("cat", "t", 3, (1,)), rows=V("cat", "a", 3, (0,)), cols=V("cat", "b", 3, (2,)), k=2, wire=True))
        add("wire 3d cat3(0,2) x mr3 x cat3 p1", "three_d", dict(table=V("cat", "t", 3, (0, 2)), rows=V("mr", "a", 3), cols=V("cat", "b", 3, (1,)), k=1, wire=True))
        add("wire 3d mr3 x cat3 x mr2 p2", "three_d", dict(table=V("mr", "t", 3), rows=V("cat", "a", 3, (1,)), cols=V("mr", "b", 2), k=2, wire=True))
        add("cat3(0,2) x cat3(1,3)", "two_d", dict(rows=V("cat", "a", 3, (0, 2)), cols=V("cat", "b", 3, (1, 3))), max_paths=500)
        add("cat3 x mr", "two_d", dict(rows=V("cat", "a", 3, (1,)), cols=V("mr", "b", 2)), max_paths=500)
        add("mr3 x cat", "two_d", dict(rows=V("mr", "a", 3), cols=V("cat", "b", 2, (1,))), max_paths=500)
        add("3d cat(0,2) x cat x cat p1", "three_d", dict(table=V("cat", "t", 2, (0, 2)), rows=V("cat", "a", 2, (0,)), cols=V("cat", "b", 2, (2,)), k=1))
        add("3d cat(missing middle) x cat x mr p1", "three_d", dict(table=V("cat", "t", 2, (1,)), rows=V("cat", "a", 2, (1,)), cols=V("mr", "b", 2), k=1), max_paths=500)
    return out
