"""Cell-level scenarios: the wire tensors of the response are free symbolic reals (one per cell).

Used for properties whose defining expression is stated over the response's own numbers (share of sum,
variances, z-scores, scale statistics, smoothing, population estimates); the link from respondents to the
tensor is C01/C02.
"""
import itertools

import numpy as np

from symx import tab
from symx.inject import SymList
from symx.scalar import Q

from . import common as C

NUM_META = {"derived": True, "references": {}, "type": {"class": "numeric", "integer": False, "missing_reasons": {"No Data": -1}, "missing_rules": {}}}


class CellWorld:
    def __init__(self, eng, specs, weighted=True, u_concrete=3, prefix="", w_strict=False, u_strict=False):
        """specs as in common.World; weighted counts are free reals >= 0 per wire cell.
        u_concrete: int -> every unweighted wire cell holds that number; None -> symbolic unweighted counts."""
        self.eng = eng
        self.vars = [C.make_var(k, a, s, **kw) for (k, a, s, kw) in specs]
        shape = ()
        for v in self.vars:
            shape += v.shape
        self.shape = shape
        self.W = np.empty(shape, dtype=object)
        self.U = np.empty(shape, dtype=object)
        for n, idx in enumerate(np.ndindex(shape)):
            if w_strict:
                self.W[idx] = eng.real("%sw%d" % (prefix, n), strict_lo=0)
            else:
                self.W[idx] = eng.real("%sw%d" % (prefix, n), lo=0)
            if u_concrete is None:
                self.U[idx] = eng.real("%su%d" % (prefix, n), strict_lo=0) if u_strict else eng.real("%su%d" % (prefix, n), lo=0)
            else:
                self.U[idx] = float(u_concrete) if not eng.symbolic else int(u_concrete)
        self.weighted = weighted
        self.extra = {}

    def free_measure(self, name, prefix, lo=None, unavailable=()):
        """a carried numeric measure: free real per wire cell ({'?': -1} on the listed wire cells)"""
        M = np.empty(self.shape, dtype=object)
        data = []
        unav = [tuple(u) for u in unavailable]
        for n, idx in enumerate(np.ndindex(self.shape)):
            if tuple(idx) in unav:
                M[idx] = C.nan_like(self.eng)
                data.append({"?": -1})
            else:
                M[idx] = self.eng.real("%s%d" % (prefix, n), lo=lo)
                data.append(M[idx])
        self.extra[name] = {"data": SymList(data), "n_missing": 0, "metadata": NUM_META}
        return M

    def response(self, result_extra=None, assume_weighted=True):
        if assume_weighted and self.weighted and self.eng.symbolic:
            first = tuple(0 for _ in self.shape)
            self.eng.assume(Q.lift(self.W[first]) != self.U[first], note="the first weighted wire cell differs from its unweighted count (cube is weighted)")
        dims = []
        for v in self.vars:
            dims.extend(v.dims())
        res = {
            "dimensions": dims,
            "counts": SymList(self.U.reshape(-1).tolist()),
            "element": "crunch:cube",
            "measures": {"count": {"data": SymList((self.W if self.weighted else self.U).reshape(-1).tolist()), "metadata": NUM_META, "n_missing": 0}},
            "missing": 0,
            "n": 0,
        }
        res["measures"].update(self.extra)
        if result_extra:
            res.update(result_extra)
        return {"query": {}, "result": res}

    def transposed(self):
        """the same data with the two variables exchanged (tensors transposed), sharing the symbolic inputs"""
        assert len(self.vars) == 2
        t = CellWorld.__new__(CellWorld)
        t.eng = self.eng
        t.vars = [self.vars[1], self.vars[0]]
        n0 = len(self.vars[0].shape)
        nd = len(self.shape)
        perm = list(range(n0, nd)) + list(range(n0))
        t.W = np.transpose(self.W, perm)
        t.U = np.transpose(self.U, perm)
        t.shape = t.W.shape
        t.weighted = self.weighted
        t.extra = {}
        for k, m in self.extra.items():
            M = np.empty(self.shape, dtype=object)
            for idx, x in zip(np.ndindex(self.shape), m["data"]):
                M[idx] = x
            t.extra[k] = dict(m, data=SymList(np.transpose(M, perm).reshape(-1).tolist()))
        return t

    # valid wire indices of a categorical variable (by position among the variables)
    def valid(self, vi):
        return self.vars[vi].valid

    def cat_ids(self, vi):
        v = self.vars[vi]
        return [v.cats[k][0] for k in v.valid]


def insertion_terms(var, ins):
    """(addend wire idxs, subtrahend wire idxs) of an insertion dict on a categorical variable (valid cats only)"""
    if "kwargs" in ins:
        pos = ins["kwargs"].get("positive", [])
        neg = ins["kwargs"].get("negative", [])
    else:
        pos, neg = ins.get("args", []), []
    ids = {var.cats[k][0]: k for k in var.valid}
    return [ids[i] for i in pos if i in ids], [ids[i] for i in neg if i in ids]


def signed_sum(vals):
    tot = None
    for sgn, v in vals:
        t = v if sgn > 0 else -v
        tot = t if tot is None else tot + t
    return tot
